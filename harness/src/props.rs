//! Per-property runners: generators / exhaustive suites + the property's own oracle evaluated on
//! the implementation. Every case also goes through the model (correspondence).

use serde_json::json;
use serde_yaml::Value as Yaml;

use crate::case;
use crate::check::*;
use crate::gen::{self, Rng};
use crate::implside::CaseReq;
use crate::known::Known;

pub fn budget(ctx: &Ctx, quick: usize, thorough: usize) -> usize {
    if ctx.tier == "thorough" {
        thorough
    } else {
        quick
    }
}

fn case_rng(ctx: &Ctx, i: usize) -> Rng {
    Rng::new(ctx.seed.wrapping_mul(1_000_003).wrapping_add(i as u64).wrapping_add(hash_str(&ctx.prop)))
}

/// Run one rule case through both sides; returns the parsed implementation reply if the rule
/// loaded and both sides agree on everything.
pub fn run_rule_case(ctx: &mut Ctx, c: &CaseReq, ic: bool) -> (Exchange, Option<Parsed>) {
    let line = case::case_line(ic, c);
    let ex = ctx.exchange(&line);
    let ry = rule_yaml(c);
    ctx.check_agree(&ex, &ry);
    let parsed = parse_reply(&ex.imp);
    match &parsed {
        Some(p) if p.load == "ok" => ctx.stat("load-ok"),
        Some(p) => {
            let k = format!("load-{}", p.load.replace(' ', "-"));
            ctx.stat(&k)
        }
        None => ctx.stat("impl-reply-unparsed"),
    }
    (ex, parsed)
}

/// Rules whose outcome depends on the regex crate's size limits (a set of individually valid
/// regexes can fail to build): implementation only, all 16 masks; the oracle is "no panic, and
/// every mask gives the unoptimised verdict".
pub fn run_implonly(ctx: &mut Ctx) {
    let mut cases = crate::check::implonly_cases();
    let sizes: &[usize] = if ctx.tier == "thorough" { &[40, 80, 120, 180, 260, 400] } else { &[120, 260] };
    for &n in sizes {
        for pre in ["?", "i?"] {
            let a = format!("{}a\\w{{{}}}", pre, n);
            let b = format!("{}b\\w{{{}}}", pre, n);
            let c3 = format!("{}c\\w{{{}}}", pre, n);
            let list = Yaml::Sequence(vec![gen::ys(&a), gen::ys(&b), gen::ys(&c3)]);
            let shapes: Vec<(String, Vec<(String, Yaml)>)> = vec![
                ("list".into(), vec![("A".into(), map1y("f", list.clone())), ("condition".into(), gen::ys("A"))]),
                ("all-list".into(), vec![("A".into(), map1y("all(f)", list.clone())), ("condition".into(), gen::ys("A"))]),
                ("of-list".into(), vec![("A".into(), map1y("of(f, 2)", list.clone())), ("condition".into(), gen::ys("A"))]),
                ("seq-of-mappings".into(), vec![
                    ("A".into(), Yaml::Sequence(vec![map1y("f", gen::ys(&a)), map1y("f", gen::ys(&b)), map1y("f", gen::ys(&c3))])),
                    ("condition".into(), gen::ys("A")),
                ]),
                ("or-chain".into(), vec![
                    ("A".into(), map1y("f", gen::ys(&a))), ("B".into(), map1y("f", gen::ys(&b))), ("C".into(), map1y("f", gen::ys(&c3))),
                    ("condition".into(), gen::ys("A or B or C")),
                ]),
            ];
            for (name, det) in shapes {
                let docs = vec![map1y("f", gen::ys(&format!("a{}", "x".repeat(n)))), map1y("f", gen::ys("zzz")), map1y("g", gen::ys("a"))];
                cases.push((format!("big-regex-{}-{}-{}", name, pre, n), CaseReq { optimised: false, det, tps: vec![], tns: vec![], docs, masks: (0..16).collect() }));
            }
        }
    }
    for (name, c) in cases {
        let line = case::case_line(false, &c);
        let imp = ctx.impl_only(&line);
        let ry = rule_yaml(&c);
        let ex = Exchange { line: line.clone(), imp: imp.clone(), model: String::new(), agree: true, supported: false };
        ctx.stat("implonly-case");
        if imp.starts_with("PANIC") || imp.contains(" PANIC") {
            ctx.violation("oracle", &format!("implementation-only case {}: panic: {}", name, trunc(&imp, 300)), &ex, &ry, true);
            continue;
        }
        if let Some(p) = parse_reply(&imp) {
            if p.load == "ok" {
                ctx.nontrivial.insert(hash_str(&line));
                let failing = c01_failing_masks(&p);
                if !failing.is_empty() && ctx.prop == "C01" {
                    ctx.violation("oracle", &format!("implementation-only case {}: masks {:?} change the verdict", name, failing), &ex, &ry, true);
                }
            }
        }
    }
}

fn map1y(k: &str, v: Yaml) -> Yaml {
    let mut m = serde_yaml::Mapping::new();
    m.insert(gen::ys(k), v);
    Yaml::Mapping(m)
}

fn sample_case(ctx: &mut Ctx, c: &CaseReq, p: &Parsed) {
    if ctx.samples.len() < 6 {
        let res: Vec<String> = p.masks.iter().take(2).map(|m| {
            format!("mask {}: {}", m.mask, m.res.iter().map(|(t, _)| t.clone()).collect::<Vec<_>>().join(""))
        }).collect();
        ctx.sample(json!({"rule": rule_yaml(c), "docs": docs_yaml(c), "results": res}));
    }
}

// ---------------------------------------------------------------------------------- C01

/// C01 oracle on the implementation reply: every mask gives the unoptimised verdict, no panic.
/// Returns the failing masks.
pub fn c01_failing_masks(p: &Parsed) -> Vec<u64> {
    let base = match p.masks.iter().find(|m| m.mask == 0) {
        Some(b) => verdicts(b),
        None => return vec![],
    };
    p.masks.iter().filter(|m| verdicts(m) != base).map(|m| m.mask).collect()
}

pub fn run_c01(ctx: &mut Ctx, known: &Known) {
    run_implonly(ctx);
    {
        use crate::suites3::*;
        let thin = if ctx.tier == "thorough" { 1 } else { 5 };
        same_field_triples(ctx, "C01", thin);
        cast_cast_or_chains(ctx, "C01");
        and_blocks_over_arrays(ctx, "C01");
        nested_all_with_sibling(ctx, "C01");
        wide_numeric_matrix(ctx, "C01");
        rows_field_twice(ctx, "C01");
        null_members_missing_path(ctx, "C01");
        big_identifiers_twice(ctx, "C01");
        rows_with_untabulated_entry(ctx, "C01");
        big_needle_sets(ctx, "C01");
    }
    // corpus first
    for (name, c) in corpus_cases() {
        let (ex, parsed) = run_rule_case(ctx, &c, false);
        c01_judge(ctx, known, &c, &ex, parsed, &format!("corpus:{}", name));
    }
    let n = budget(ctx, 2500, 60000);
    for i in 0..n {
        let mut r = case_rng(ctx, i);
        let c = gen_case(&mut r, (0..16).collect(), 4);
        let (ex, parsed) = run_rule_case(ctx, &c, false);
        c01_judge(ctx, known, &c, &ex, parsed, &format!("random:{}", i));
    }
}

fn c01_judge(ctx: &mut Ctx, known: &Known, c: &CaseReq, ex: &Exchange, parsed: Option<Parsed>, tag: &str) {
    let ry = rule_yaml(c);
    if ex.imp.starts_with("PANIC") {
        ctx.violation("oracle", &format!("{}: optimise/match panicked: {}", tag, trunc(&ex.imp, 200)), ex, &ry, true);
        return;
    }
    let p = match parsed {
        Some(p) if p.load == "ok" => p,
        _ => return,
    };
    let base = verdicts(&p.masks[0]);
    if base.iter().any(|b| *b) && base.iter().any(|b| !*b) {
        ctx.nontrivial.insert(hash_str(&ex.line));
    }
    sample_case(ctx, c, &p);
    let failing = c01_failing_masks(&p);
    if failing.is_empty() {
        return;
    }
    ctx.stat("oracle-fail");
    // a failure the faithful model reproduces, through a pass with a listed finding, is known
    let all_shake_or_matrix = failing.iter().all(|m| m & 2 != 0 || m & 8 != 0);
    let family = if failing.iter().any(|m| m & 2 == 0) { "C01-matrix" } else { "C01-shake" };
    if ex.agree && ex.supported && all_shake_or_matrix && known.has_family("C01", family) {
        if let Some(name) = tag.strip_prefix("corpus:") {
            // a recorded witness must be listed under its own finding
            if let Some(f) = known.by_witness("C01", name) {
                *ctx.known_hits.entry(f.id.clone()).or_insert(0) += 1;
                return;
            }
        } else {
            *ctx.known_hits.entry(format!("random:{}", family)).or_insert(0) += 1;
            return;
        }
    }
    ctx.violation(
        "oracle",
        &format!("{}: optimised verdict differs from unoptimised for masks {:?}", tag, failing),
        ex,
        &ry,
        true,
    );
}

// ---------------------------------------------------------------------------------- C03

/// Lone needles of every kind and case flag against strings whose multi-byte characters straddle
/// every byte offset a needle length can point at: evaluation returns, plain and optimised.
fn c03_multibyte(ctx: &mut Ctx) {
    let hays = ["€b", "aé", "日本", "é", "ab€", "€", "C:\\Temp\\日本", "aé.exe", "éa", "ÿ", "a€", "€€", "x日", "𝄞", "a𝄞b"];
    let docs: Vec<Yaml> = hays.iter().map(|h| map1y("s", gen::ys(h))).chain(hays.iter().map(|h| map1y("s", Yaml::Sequence(vec![gen::ys(h), gen::ys("zz")])))).collect();
    for pat in ["iabc*", "i*abc", "iab", "iab*", "i*.exe", "i*ab", "ia*", "i*a", "abc*", "*abc", "i*b*", "ié*", "i*é", "i€*", "i*€", "i日*", "i?^ab", "iabcd*", "i*bcde", "ia"] {
        for cond in ["A", "not A"] {
            let c = CaseReq { optimised: false, det: vec![("A".into(), map1y("s", gen::ys(pat))), ("condition".into(), gen::ys(cond))], tps: vec![], tns: vec![], docs: docs.clone(), masks: (0..16).collect() };
            let (ex, _parsed) = run_rule_case(ctx, &c, false);
            if ex.imp.contains("PANIC") || ex.imp.starts_with("HANG") {
                ctx.violation("oracle", &format!("matching the pattern {:?} against multi-byte strings panicked: {}", pat, trunc(&ex.imp, 200)), &ex, &rule_yaml(&c), true);
            } else {
                ctx.nontrivial.insert(hash_str(&ex.line));
            }
        }
    }
}

/// Counts as large as the language lets them be written, and printing: `of(.., n)` with n up to
/// i64::MAX loads (n is any non-negative integer) and evaluates; an expression with long multi-byte
/// needles prints, with and without a logging subscriber installed.
fn c03_counts_and_printing(ctx: &mut Ctx) {
    let docs: Vec<Yaml> = vec![
        serde_yaml::from_str("{f: ab, g: 1}").unwrap(), serde_yaml::from_str("{f: [ab, x], g: x}").unwrap(), serde_yaml::from_str("{}").unwrap(), serde_yaml::from_str("{f: 5}").unwrap(),
    ];
    for n in ["9223372036854775807", "4294967296", "2147483648", "1000000000000", "65536", "3"] {
        for (body, cond) in [
            ("A:\n    - f: 'a*'\n    - g: 1\n", format!("of(A, {})", n)),
            ("A:\n    f: 'a*'\n    g: 1\n", format!("of(A, {})", n)),
            ("A:\n    - f: 'a*'\n    - g: 1\n", format!("not of(A, {})", n)),
            (&format!("A:\n    of(f, {}): ['a*', '?b$', 3]\n", n), "A".to_string()),
            (&format!("A:\n    of(f, {}): ['a*', '*b']\n", n), "A".to_string()),
            (&format!("A:\n    of(f, {}): ['?a', '?b']\n", n), "not A".to_string()),
        ] {
            let text = format!("detection:\n  {}  condition: {}\ntrue_positives: []\ntrue_negatives: []\n", body, cond);
            let value: Yaml = match serde_yaml::from_str(&text) { Ok(v) => v, Err(_) => continue };
            let det: Vec<(String, Yaml)> = value.get("detection").and_then(|d| d.as_mapping()).map(|m| m.iter().map(|(k, v)| (k.as_str().unwrap_or("").to_string(), v.clone())).collect()).unwrap_or_default();
            let c = CaseReq { optimised: false, det, tps: vec![], tns: vec![], docs: docs.clone(), masks: (0..16).collect() };
            let (ex, _p) = run_rule_case(ctx, &c, false);
            if ex.imp.contains("PANIC") || ex.imp.starts_with("HANG") {
                ctx.violation("oracle", &format!("a rule with the count {} panics when evaluated: {}", n, trunc(&ex.imp, 200)), &ex, &rule_yaml(&c), true);
            } else {
                ctx.nontrivial.insert(hash_str(&ex.line));
            }
        }
    }
    // printing
    let unit = ["é", "日", "€", "aé"];
    for u in unit {
        for len in [20usize, 47, 48, 49, 60, 100] {
          for lead in ["", "x", "xy", "xyz"] {
            // every byte offset falls inside a character for one of the leads
            let needle: String = format!("{}{}", lead, std::iter::repeat(u).take(len).collect::<String>());
            for pat in [format!("{}*", needle), format!("*{}", needle), format!("i*{}*", needle), format!("?{}", needle), needle.clone()] {
                for list in [false, true] {
                    let v = if list { format!("['{}', 'zz*', '?q']", pat) } else { format!("'{}'", pat) };
                    let text = format!("detection:\n  A:\n    f: {}\n  condition: A\ntrue_positives: []\ntrue_negatives: []\n", v);
                    let r = std::panic::catch_unwind(|| {
                        let rule = tau_engine::Rule::from_str(&text).ok()?;
                        let doc: serde_yaml::Mapping = serde_yaml::from_str("{f: xyz}").ok()?;
                        let mut out = 0usize;
                        for mask in [0u64, 15, 2] {
                            let rl = if mask == 0 { rule.clone() } else { rule.clone().optimise(crate::implside::opts(mask)) };
                            out += format!("{} {:?}", rl.detection.expression, rl.detection.identifiers.len()).len();
                            for (_, e) in rl.detection.identifiers.iter() { out += format!("{}", e).len(); }
                            let _ = rl.matches(&doc);
                            let _ = tracing::subscriber::with_default(crate::suites2::AllOn, || (rl.matches(&doc), rl.validate().is_ok()));
                        }
                        Some(out)
                    });
                    ctx.evaluations += 1;
                    match r {
                        Ok(Some(_)) => { ctx.nontrivial.insert(hash_str(&text)); }
                        Ok(None) => {}
                        Err(_) => {
                            let ex = Exchange { line: format!("print {}", hash_str(&text)), imp: "PANIC".into(), model: String::new(), agree: true, supported: false };
                            ctx.violation("oracle", "printing / evaluating (with a logging subscriber) a rule with a long multi-byte needle panics", &ex, &text, true);
                        }
                    }
                }
            }
          }
        }
    }
}

/// One-key identifiers holding ONE scalar pattern of every kind and case flag, used through
/// `all(A)`, `of(A, n)` and as quantified keys: evaluation returns on strings, arrays, numbers
/// (under str()), NaN and absent fields — plain and optimised — and validate() returns too.
fn c03_lone_under_quantifiers(ctx: &mut Ctx) {
    let docs: Vec<Yaml> = ["{foo: barx}", "{foo: BARX}", "{foo: [xbar, 1, barx]}", "{foo: 12}", "{foo: .nan}", "{foo: 1.5}", "{foo: true}", "{foo: ~}", "{foo: {k: barx}}", "{foo: ''}", "{}"].iter().map(|t| serde_yaml::from_str::<Yaml>(t).unwrap()).collect();
    for pat in ["ibar*", "bar*", "i*bar", "*bar", "i*bar*", "*bar*", "ibarx", "barx", "i?^bar", "?^bar", "'*'", "i''", "1*", "i1*", ".nan", "1.5", ">1.0", "12"] {
        for key in ["foo", "str(foo)", "all(foo)", "of(foo, 1)", "not(foo)", "flt(foo)"] {
            for cond in ["A", "all(A)", "of(A, 1)", "of(A, 2)", "not all(A)", "of(A, 0)"] {
                let val = if pat.starts_with('\'') || pat.starts_with('.') || pat.parse::<f64>().is_ok() { pat.to_string() } else { format!("'{}'", pat) };
                let text = format!("detection:\n  A:\n    {}: {}\n  condition: {}\ntrue_positives: []\ntrue_negatives:\n- foo: .nan\n- foo: [barx]\n", key, val, cond);
                let value: Yaml = match serde_yaml::from_str(&text) { Ok(v) => v, Err(_) => continue };
                let m = match value.as_mapping() { Some(m) => m, None => continue };
                let det: Vec<(String, Yaml)> = m.get("detection").and_then(|d| d.as_mapping()).map(|m| m.iter().map(|(k, v)| (k.as_str().unwrap_or("").to_string(), v.clone())).collect()).unwrap_or_default();
                let tns: Vec<Yaml> = m.get("true_negatives").and_then(|d| d.as_sequence()).cloned().unwrap_or_default();
                let c = CaseReq { optimised: false, det, tps: vec![], tns, docs: docs.clone(), masks: vec![0, 15, 2, 8] };
                let (ex, _p) = run_rule_case(ctx, &c, false);
                if ex.imp.contains("PANIC") || ex.imp.starts_with("HANG") {
                    ctx.violation("oracle", &format!("`{}: {}` under `{}` panics when evaluated: {}", key, val, cond, trunc(&ex.imp, 200)), &ex, &rule_yaml(&c), true);
                } else if ex.imp.starts_with("load=ok") {
                    ctx.check_agree(&ex, &rule_yaml(&c));
                    ctx.nontrivial.insert(hash_str(&ex.line));
                }
            }
        }
    }
}

/// Documents nested thousands of levels deep (lists in lists, objects in objects) under the fields a
/// rule reads: evaluation returns — it neither overflows the native stack nor panics. The engine
/// walks a document only along the rule's paths, never into what it was not asked for.
fn c03_deep_documents(ctx: &mut Ctx) {
    let rules = [
        "detection:\n  A:\n    f: '*admin*'\n  condition: A\ntrue_positives: []\ntrue_negatives: []\n",
        "detection:\n  A:\n    f: ['a*', '?b', 7]\n    g: x\n  condition: A or not A\ntrue_positives: []\ntrue_negatives: []\n",
        "detection:\n  A:\n    all(f): ['a*', '*b']\n  B:\n    f:\n      k: v\n  C:\n    str(f): x\n  condition: A or B or C\ntrue_positives: []\ntrue_negatives: []\n",
        "detection:\n  A:\n    f.k.k: v\n    of(f, 1): [x, y]\n  condition: not A\ntrue_positives: []\ntrue_negatives: []\n",
    ];
    for depth in [2000usize, 20000, 100000] {
        for shape in 0..3 {
            for text in rules {
                let label = format!("a document whose field f is nested {} levels deep ({})", depth, ["lists in lists", "objects in objects", "alternating"][shape]);
                let outcome = ctx.risky(&label, text, || {
                    let rule = match tau_engine::Rule::from_str(text) { Ok(r) => r, Err(_) => return None };
                    // built bottom-up in a loop and leaked afterwards: dropping it would recurse in serde_yaml
                    let mut v = Yaml::String("sysadmin".into());
                    for i in 0..depth {
                        v = match (shape, i % 2) {
                            (0, _) | (2, 0) => Yaml::Sequence(vec![v]),
                            _ => { let mut m = serde_yaml::Mapping::new(); m.insert(Yaml::String("k".into()), v); Yaml::Mapping(m) }
                        };
                    }
                    let mut doc = serde_yaml::Mapping::new();
                    doc.insert(Yaml::String("f".into()), v);
                    doc.insert(Yaml::String("g".into()), Yaml::String("x".into()));
                    let r = std::panic::catch_unwind(std::panic::AssertUnwindSafe(|| {
                        let mut out = vec![];
                        for mask in [0u64, 15] {
                            let rl = if mask == 0 { rule.clone() } else { rule.clone().optimise(crate::implside::opts(mask)) };
                            out.push(rl.matches(&doc));
                        }
                        out
                    }));
                    std::mem::forget(doc);
                    Some(r.is_ok())
                });
                ctx.evaluations += 1;
                ctx.nontrivial.insert(hash_str(&format!("deep{}{}{}", depth, shape, text)));
                if outcome == Some(false) {
                    let ex = Exchange { line: format!("deep {} {}", depth, shape), imp: "PANIC".into(), model: String::new(), agree: true, supported: false };
                    ctx.violation("oracle", &format!("matching panics on {}", label), &ex, text, true);
                }
            }
        }
    }
}

pub fn run_c03(ctx: &mut Ctx, _known: &Known) {
    run_implonly(ctx);
    crate::suites3::big_identifiers_twice(ctx, "C03");
    crate::suites3::rows_field_twice(ctx, "C03");
    c03_deep_documents(ctx);
    c03_multibyte(ctx);
    c03_lone_under_quantifiers(ctx);
    c03_counts_and_printing(ctx);
    // conditions that are a single bare value (no operator, identifier or quantifier): either a
    // load error or a rule that evaluates without panicking
    for cond in ["int(x)", "flt(x)", "str(x)", "not(x)", "1", "1.5", "(int(x))", "((1))", "string(x)", "x", "(x)", "all(x)", "of(x, 1)", "int(x) == 1", "not x"] {
        let c = CaseReq {
            optimised: false,
            det: vec![("x".into(), map1y("x", gen::ys("1"))), ("condition".into(), gen::ys(cond))],
            tps: vec![map1y("x", gen::ys("1"))],
            tns: vec![map1y("y", gen::ys("1"))],
            docs: vec![map1y("x", gen::ys("1")), map1y("x", Yaml::Number(1u64.into())), map1y("y", gen::ys("1"))],
            masks: (0..16).collect(),
        };
        let (ex, parsed) = run_rule_case(ctx, &c, false);
        c03_judge(ctx, &c, &ex, parsed, &format!("bare-condition:{}", cond));
    }
    // every kind of bare value as an OPERAND of and / or / not, on either side, plain and inside
    // parentheses: a load error, or a rule that evaluates (whichever operand the documents make the
    // solver reach)
    for v in ["1", "1.5", "0.5", "2.0", ".5", "-1", "0", "int(x)", "flt(x)", "str(x)", "not(x)", "(1.5)", "(int(x))", "1e3", "1.", "true", "null", "'s'"] {
        for form in ["x and {}", "{} and x", "x or {}", "{} or x", "not {}", "not (x and {}) or x", "x and ({} or x)", "({}) and x", "x and x and {}", "{} or x or x", "x and not {}", "all(x) or {}", "{} and {}"] {
            let cond = form.replace("{}", v);
            let c = CaseReq {
                optimised: false,
                det: vec![("x".into(), map1y("x", gen::ys("1"))), ("condition".into(), gen::ys(&cond))],
                tps: vec![map1y("x", gen::ys("1"))],
                tns: vec![map1y("y", gen::ys("1"))],
                docs: vec![map1y("x", gen::ys("1")), map1y("x", Yaml::Number(1u64.into())), map1y("y", gen::ys("1")), map1y("x", gen::ys("2"))],
                masks: (0..16).collect(),
            };
            let (ex, parsed) = run_rule_case(ctx, &c, false);
            c03_judge(ctx, &c, &ex, parsed, &format!("value-operand:{}", cond));
        }
    }
    for (name, c) in corpus_cases() {
        let (ex, parsed) = run_rule_case(ctx, &c, false);
        c03_judge(ctx, &c, &ex, parsed, &format!("corpus:{}", name));
    }
    let n = budget(ctx, 2500, 60000);
    for i in 0..n {
        let mut r = case_rng(ctx, i);
        let mut c = gen_case(&mut r, (0..16).collect(), 3);
        // adversarial documents: wrong kinds everywhere, extremes, deep nesting
        c.docs.push(adversarial_doc(&mut r));
        if r.chance(40) {
            c.tps.push(Yaml::Sequence(vec![]));
            c.tns.push(gen::ys("scalar"));
        }
        let (ex, parsed) = run_rule_case(ctx, &c, false);
        c03_judge(ctx, &c, &ex, parsed, &format!("random:{}", i));
    }
}

pub fn adversarial_doc(r: &mut Rng) -> Yaml {
    let mut m = serde_yaml::Mapping::new();
    let mut deep = Yaml::String("x".into());
    for i in 0..40 {
        let mut mm = serde_yaml::Mapping::new();
        if i % 2 == 0 {
            mm.insert(gen::ys("k"), deep);
        } else {
            mm.insert(gen::ys("p"), Yaml::Sequence(vec![deep]));
        }
        mm.insert(gen::ys("q"), gen::ys("y"));
        deep = Yaml::Mapping(mm);
    }
    for f in gen::SIMPLE_FIELDS {
        let v = match r.below(10) {
            0 => Yaml::Sequence(vec![]),
            1 => Yaml::Mapping(serde_yaml::Mapping::new()),
            2 => Yaml::Number(u64::MAX.into()),
            3 => Yaml::Number(i64::MIN.into()),
            4 => Yaml::Number(f64::NAN.into()),
            5 => deep.clone(),
            6 => Yaml::Sequence(vec![Yaml::Null, Yaml::Sequence(vec![]), deep.clone(), Yaml::Number(f64::INFINITY.into())]),
            7 => Yaml::Null,
            8 => Yaml::String("\u{0}\u{10FFFF}".replace('\u{10FFFF}', "Ä")),
            _ => gen::gen_doc_value(r, 0),
        };
        m.insert(gen::ys(f), v);
    }
    Yaml::Mapping(m)
}

fn c03_judge(ctx: &mut Ctx, c: &CaseReq, ex: &Exchange, parsed: Option<Parsed>, tag: &str) {
    let ry = rule_yaml(c);
    if ex.imp.contains("PANIC") {
        ctx.violation("oracle", &format!("{}: panic after/while loading: {}", tag, trunc(&ex.imp, 200)), ex, &ry, true);
        return;
    }
    if ex.imp.contains("INCONSISTENT") {
        ctx.violation("oracle", &format!("{}: matches() disagrees with the three-valued result", tag), ex, &ry, true);
        return;
    }
    if let Some(p) = parsed {
        if p.load == "ok" {
            ctx.nontrivial.insert(hash_str(&ex.line));
            sample_case(ctx, c, &p);
        }
    }
}

// ---------------------------------------------------------------------------------- C13

/// validate() looks at the rule as it is NOW: examples pushed, removed or replaced through the public
/// fields after an earlier (successful or failed) validate() are judged like any others, on the rule
/// itself, on a clone and on the optimised rule.
fn c13_edits(ctx: &mut Ctx) {
    let text = "detection:\n  A:\n    foo: bar\n  condition: A\ntrue_positives:\n- foo: bar\ntrue_negatives:\n- foo: baz\n";
    let y = |t: &str| -> Yaml { serde_yaml::from_str(t).expect("yaml") };
    let dummy = Exchange { line: "validate-after-edit".into(), imp: String::new(), model: String::new(), agree: true, supported: false };
    for mask in [0u64, 1, 15, 14] {
        let fresh = || -> Option<tau_engine::Rule> {
            let r = tau_engine::Rule::from_str(text).ok()?;
            Some(if mask == 0 { r } else { r.optimise(crate::implside::opts(mask)) })
        };
        // (edit, expected validity after the edit)
        let edits: Vec<(&str, Box<dyn Fn(&mut tau_engine::Rule)>, bool)> = vec![
            ("push a true positive that does not match", Box::new(|r: &mut tau_engine::Rule| r.true_positives.push(serde_yaml::from_str("{foo: nope}").unwrap())), false),
            ("push a true negative that matches", Box::new(|r: &mut tau_engine::Rule| r.true_negatives.push(serde_yaml::from_str("{foo: bar}").unwrap())), false),
            ("push a true positive that is not a mapping", Box::new(|r: &mut tau_engine::Rule| r.true_positives.push(Yaml::Null)), false),
            ("push a matching true positive", Box::new(|r: &mut tau_engine::Rule| r.true_positives.push(serde_yaml::from_str("{foo: bar, x: 1}").unwrap())), true),
            ("clear the examples", Box::new(|r: &mut tau_engine::Rule| { r.true_positives.clear(); r.true_negatives.clear(); }), true),
        ];
        for (what, edit, want_ok) in edits.iter() {
            for first_ok in [true, false] {
                ctx.evaluations += 1;
                ctx.nontrivial.insert(hash_str(&format!("edit{}{}{}", mask, what, first_ok)));
                let mut r = match fresh() { Some(r) => r, None => continue };
                if !first_ok {
                    r.true_negatives.push(y("{foo: bar}"));
                }
                let v1 = r.validate().is_ok();
                if v1 != first_ok {
                    ctx.violation("oracle", &format!("mask {}: validate() on the freshly loaded rule gives {}, expected {}", mask, v1, first_ok), &dummy, text, true);
                    continue;
                }
                if !first_ok {
                    r.true_negatives.pop();
                }
                edit(&mut r);
                let v2 = r.validate().is_ok();
                let v3 = r.clone().validate().is_ok();
                let again = r.validate().is_ok();
                if v2 != *want_ok || v3 != *want_ok || again != *want_ok {
                    ctx.violation("oracle", &format!("mask {}: after an earlier validate() (= {}) and the edit `{}`, validate() gives {} (clone: {}, repeated: {}), the examples imply {}", mask, v1, what, v2, v3, again, want_ok), &dummy, text, true);
                }
            }
        }
    }
}

pub fn run_c13(ctx: &mut Ctx, _known: &Known) {
    c13_edits(ctx);
    c13_path_like_examples(ctx);
    let n = budget(ctx, 2000, 40000);
    for i in 0..n {
        let mut r = case_rng(ctx, i);
        let mut c = gen_case(&mut r, vec![0, 15, 2, 9], 0);
        // examples: generated documents (matching or not), the empty mapping, non-mapping entries
        c.tps.clear();
        c.tns.clear();
        // now and then LONG example lists (beyond 64, 128, 256 entries), failing ones anywhere
        let long = i % 25 == 7;
        let ntp = if long { *r.pick(&[64usize, 65, 70, 130, 260]) } else { r.below(4) };
        let ntn = if long { *r.pick(&[0usize, 3, 65, 129, 257]) } else { r.below(4) };
        for _ in 0..ntp {
            c.tps.push(example(&mut r));
        }
        for _ in 0..ntn {
            c.tns.push(example(&mut r));
        }
        c13_judge(ctx, &mut c, &format!("random:{}", i));
    }
}

/// validate() against matches() on the rule's own examples, for one rule.
fn c13_judge(ctx: &mut Ctx, c: &mut CaseReq, label: &str) {
    c.docs = c.tps.iter().chain(c.tns.iter()).filter_map(|d| d.as_mapping().map(|m| Yaml::Mapping(m.clone()))).collect();
    let (ex, parsed) = run_rule_case(ctx, &c, false);
    let ry = rule_yaml(&c);
    if ex.imp.contains("PANIC") {
        ctx.violation("oracle", &format!("{}: validate()/matches() panicked", label), &ex, &ry, true);
        return;
    }
    let p = match parsed {
        Some(p) if p.load == "ok" => p,
        _ => return,
    };
    // oracle: the failing examples validate() names are exactly those whose matches() verdict
    // is wrong (documents were passed in example order, mapping examples only)
    for m in &p.masks {
        let v = verdicts(m);
        let mut k = 0;
        let mut tp_fail = vec![];
        for (j, t) in c.tps.iter().enumerate() {
            if t.as_mapping().is_some() {
                if !v[k] {
                    tp_fail.push(j);
                }
                k += 1;
            } else {
                tp_fail.push(j);
            }
        }
        let mut tn_fail = vec![];
        for (j, t) in c.tns.iter().enumerate() {
            if t.as_mapping().is_some() {
                if v[k] {
                    tn_fail.push(j);
                }
                k += 1;
            } else {
                tn_fail.push(j);
            }
        }
        let expect = format!("tp{:?}tn{:?}", tp_fail, tn_fail);
        if m.val != expect {
            ctx.violation(
                "oracle",
                &format!("{}: mask {}: validate() reports {} but matches() implies {}", label, m.mask, m.val, expect),
                &ex,
                &ry,
                true,
            );
            break;
        }
    }
    if !(c.tps.is_empty() && c.tns.is_empty()) {
        ctx.nontrivial.insert(hash_str(&ex.line));
    }
    if ctx.samples.len() < 6 {
        ctx.sample(json!({"rule": ry, "validate": p.masks.iter().map(|m| format!("mask {}: {}", m.mask, m.val)).collect::<Vec<_>>()}));
    }
}

/// Examples whose KEYS look like the paths the rule reads (a flat key `process.name`, `args[0]`, a
/// key with a trailing dot) next to the nested spelling: validate() resolves a field exactly as
/// matches() does.
fn c13_path_like_examples(ctx: &mut Ctx) {
    let y = |t: &str| -> Yaml { serde_yaml::from_str(t).expect("yaml") };
    let examples: Vec<Yaml> = vec![
        y("{process.name: cmd.exe}"), y("{process: {name: cmd.exe}}"), y("{process.name: cmd.exe, process: {name: other}}"), y("{process.name: other, process: {name: cmd.exe}}"),
        y("{'args[0]': -enc}"), y("{args: [-enc, x]}"), y("{'args[0]': x, args: [-enc]}"), y("{a.b.c: 1, a: {b.c: 1}}"), y("{a: {b: {c: 1}}}"), y("{size: '7'}"), y("{process: [{name: cmd.exe}]}"), y("{}"),
    ];
    for (body, cond) in [("process.name: cmd.exe", "A"), ("process.name: cmd.exe", "not A"), ("args[0]: '-enc'", "A"), ("process:\n      name: cmd.exe", "A"), ("a.b.c: 1", "A"), ("a:\n      b.c: 1", "A"), ("int(size): 7\n    process.name: 'cmd*'", "A or not A"), ("all(process.name): ['cmd*', '*.exe']", "A")] {
        for split in 0..3 {
            let text = format!("detection:\n  A:\n    {}\n  condition: {}\n", body, cond);
            let value: Yaml = match serde_yaml::from_str(&text) { Ok(v) => v, Err(_) => continue };
            let det: Vec<(String, Yaml)> = value.get("detection").and_then(|d| d.as_mapping()).map(|m| m.iter().map(|(k, v)| (k.as_str().unwrap_or("").to_string(), v.clone())).collect()).unwrap_or_default();
            let (tps, tns): (Vec<Yaml>, Vec<Yaml>) = match split { 0 => (examples.clone(), vec![]), 1 => (vec![], examples.clone()), _ => (examples.iter().step_by(2).cloned().collect(), examples.iter().skip(1).step_by(2).cloned().collect()) };
            let mut c = CaseReq { optimised: false, det, tps, tns, docs: vec![], masks: vec![0, 15, 2, 9] };
            c13_judge(ctx, &mut c, &format!("path-like examples `{}` / `{}`", body.replace('\n', " "), cond));
        }
    }
}

fn tagged(v: Yaml) -> Yaml {
    Yaml::Tagged(Box::new(serde_yaml::value::TaggedValue { tag: serde_yaml::value::Tag::new("t"), value: v }))
}

fn example(r: &mut Rng) -> Yaml {
    if r.chance(6) {
        // strings whose TEXT looks like a document: still not a mapping
        return gen::ys(*r.pick(&["foo: bar", "{\"foo\": \"bar\"}", "", "{}", "s: a", "a: 1", "- x", "[]", "s: a\nn: 1", "~"]));
    }
    if r.chance(6) {
        // a long example full of multi-byte characters (its rendering in an error message is long)
        let unit = *r.pick(&["é", "日本", "aé", "€x", "𝄞"]);
        let pad = r.below(3);
        let text = format!("{}{}", "x".repeat(pad), unit.repeat(90 + r.below(60)));
        return if r.chance(60) { map1y(*r.pick(&["s", "a", "zz"]), gen::ys(&text)) } else { gen::ys(&text) };
    }
    match r.below(17) {
        // a `<<` key is an ordinary field of the example document (YAML merge keys are resolved by
        // the YAML reader, if at all, never by validate() on its own)
        14 => map1y("<<", gen::gen_doc(r)),
        15 => {
            let mut m = match gen::gen_doc(r) { Yaml::Mapping(m) => m, _ => serde_yaml::Mapping::new() };
            m.insert(gen::ys("<<"), if r.chance(50) { gen::gen_doc(r) } else { Yaml::Sequence(vec![gen::gen_doc(r), gen::gen_doc(r)]) });
            Yaml::Mapping(m)
        }
        16 => map1y(*r.pick(&["o", "oa", "a"]), map1y("<<", gen::gen_doc(r))),
        // a tagged mapping is still a mapping (`as_mapping` looks through tags); a tagged scalar is not
        12 => tagged(gen::gen_doc(r)),
        13 => if r.chance(50) { tagged(gen::ys("text")) } else { tagged(tagged(gen::gen_doc(r))) },
        0 => Yaml::Number(5.into()),
        1 => gen::ys("text"),
        2 => Yaml::Sequence(vec![gen::gen_doc(r)]),
        3 => Yaml::Mapping(serde_yaml::Mapping::new()),
        4 => Yaml::Null,
        _ => gen::gen_doc(r),
    }
}

// ---------------------------------------------------------------------------------- C16

/// Keys written in the rule (top level): every key of every mapping at the top level of an
/// identifier, with modifiers stripped, plus cast fields in the condition.
pub fn written_top_keys(c: &CaseReq) -> Vec<String> {
    fn strip_key(k: &str) -> String {
        let k = k.trim();
        for kw in ["all(", "not(", "int(", "flt(", "str(", "string("] {
            if let Some(r) = k.strip_prefix(kw) {
                return r.trim_end_matches(')').trim().to_string();
            }
        }
        if let Some(r) = k.strip_prefix("of(") {
            return r.split(',').next().unwrap_or("").trim().to_string();
        }
        k.replace(['(', ')'], " ").split_whitespace().collect::<Vec<_>>().join(" ")
    }
    fn top(y: &Yaml, out: &mut Vec<String>) {
        match y {
            Yaml::Mapping(m) => {
                for (k, _) in m {
                    if let Some(k) = k.as_str() {
                        out.push(strip_key(k));
                    }
                }
            }
            Yaml::Sequence(xs) => xs.iter().for_each(|x| top(x, out)),
            _ => {}
        }
    }
    let mut out = vec![];
    for (k, v) in &c.det {
        if k == "condition" {
            if let Some(s) = v.as_str() {
                // int(f) / flt(f) / str(f) in the condition
                let mut rest = s;
                while let Some(i) = rest.find('(') {
                    let head = &rest[..i];
                    let tail = &rest[i + 1..];
                    if head.ends_with("int") || head.ends_with("flt") || head.ends_with("str") || head.ends_with("string") {
                        if let Some(j) = tail.find(')') {
                            out.push(tail[..j].trim().to_string());
                        }
                    }
                    rest = tail;
                }
            }
        } else {
            top(v, &mut out);
        }
    }
    out
}

pub fn run_c16(ctx: &mut Ctx, _known: &Known) {
    c16_fixed_pairs(ctx);
    let n = budget(ctx, 2000, 40000);
    for i in 0..n {
        let mut r = case_rng(ctx, i);
        let mut c = gen_case(&mut r, (0..16).collect(), 2);
        // pairs of documents differing only in fields no predicate addresses
        let written = written_top_keys(&c);
        let mut extra = vec![];
        for d in &c.docs {
            let mut d2 = d.as_mapping().cloned().unwrap_or_default();
            for noise in ["zz", "unaddressed", "noise", "a_", "A", "k", "p", "q", "name", "0"] {
                let addressed = written.iter().any(|w| w == noise || w.starts_with(&format!("{}.", noise)) || w.starts_with(&format!("{}[", noise)));
                if !addressed {
                    match r.below(3) {
                        0 => { d2.insert(gen::ys(noise), gen::gen_doc_value(&mut r, 0)); }
                        1 => { d2.remove(gen::ys(noise)); }
                        _ => { d2.insert(gen::ys(noise), gen::ys("changed")); }
                    }
                }
            }
            extra.push(Yaml::Mapping(d2));
        }
        let nd = c.docs.len();
        c.docs.extend(extra);
        let (ex, parsed) = run_rule_case(ctx, &c, false);
        let ry = rule_yaml(&c);
        let p = match parsed {
            Some(p) if p.load == "ok" => p,
            _ => continue,
        };
        let mut asked_any = false;
        for m in &p.masks {
            for (j, (tri, trace)) in m.res.iter().enumerate() {
                for k in trace {
                    asked_any = true;
                    let key = crate::sx::dec(k).unwrap_or_default();
                    if !written.contains(&key) {
                        ctx.violation(
                            "oracle",
                            &format!("random:{}: mask {} doc {}: the engine asked the document for key {:?} which the rule does not write (written: {:?})", i, m.mask, j, key, written),
                            &ex, &ry, true);
                    }
                }
                // frame: the twin document (same addressed fields) must give the same result
                if j < nd {
                    let (tri2, trace2) = &m.res[j + nd];
                    if tri != tri2 || trace != trace2 {
                        ctx.violation(
                            "oracle",
                            &format!("random:{}: mask {} doc {}: result/trace changes when only unaddressed fields change ({} vs {})", i, m.mask, j, tri, tri2),
                            &ex, &ry, true);
                    }
                }
            }
        }
        if asked_any {
            ctx.nontrivial.insert(hash_str(&ex.line));
        }
        sample_case(ctx, &c, &p);
    }
}

/// Fixed pairs of documents that differ only in fields no predicate addresses — inside a nested
/// object (also: an empty object against one holding only unaddressed fields), and top-level fields
/// whose NAME is the text of a dotted / indexed key of the rule — in every document representation,
/// plain and with every switch combination. The two documents of a pair get the same verdict.
fn c16_fixed_pairs(ctx: &mut Ctx) {
    use std::collections::HashMap;
    let rules = [
        ("proc:\n      name: evil", vec!["A", "not A"]),
        ("proc:\n      name: evil\n    user: root", vec!["A", "not A"]),
        ("net.dst: x", vec!["A", "not A"]),
        ("args[1]: x", vec!["A", "not A"]),
        ("net.dst: x\n    host: ws1", vec!["A", "not A"]),
        ("zz: q", vec!["A or int(net.port) > 5", "not (A or int(net.port) > 5)"]),
        ("o:\n      p:\n        q: x", vec!["A", "not A"]),
        ("Data: '*mimikatz*'", vec!["A", "not A"]),
        ("Data: ['*mimikatz*', '?^x']\n    host: ws1", vec!["A", "not A"]),
        ("str(Data): '*mimikatz*'", vec!["A", "not A"]),
        // a block whose keys share their first segment, over objects and arrays of objects
        ("conns:\n      dst.ip: 10.0.0.1\n      dst.port: 443", vec!["A", "not A"]),
        ("conns:\n      args[0]: a\n      args[1]: b", vec!["A", "not A"]),
        ("conns:\n      dst.ip: 10.0.0.1\n      dst.port: 443\n      dst.zone: dmz\n    host: ws1", vec!["A", "not A"]),
        // a block over a field that holds an OBJECT: its own keys are asked, never its members' members
        ("procs:\n      name: evil.exe\n      pid: 4", vec!["A", "not A"]),
        ("cmd:\n      argv[2]: lsass.dmp", vec!["A", "not A"]),
        ("proc.args[0]: mimikatz.exe", vec!["A", "not A"]),
        // top-level keys against documents that wrap the record in an envelope member, or carry a
        // member with a name that is special in YAML text (`<<`): only the addressed level is read
        ("EventID: 4688", vec!["A", "not A"]),
        ("EventID: 4688\n    Image: '*cmd.exe'", vec!["A", "not A"]),
        ("name: evil", vec!["A", "not A"]),
    ];
    let pairs = [
        ("{proc: {}}", "{proc: {pid: 1}}"),
        ("{proc: {name: evil}}", "{proc: {name: evil, pid: 1}}"),
        ("{proc: [{}]}", "{proc: [{pid: 1}]}"),
        ("{proc: [{}, {name: evil}]}", "{proc: [{pid: 2}, {name: evil, x: 1}]}"),
        ("{proc: {}, user: root}", "{proc: {pid: 1}, user: root}"),
        ("{net: {dst: x}}", "{net: {dst: x}, net.dst: elsewhere}"),
        ("{host: ws1}", "{host: ws1, net.dst: x}"),
        ("{net: {dst: y}}", "{net: {dst: y}, net.dst: x}"),
        ("{args: [w, x]}", "{args: [w, x], 'args[1]': y}"),
        ("{args: [w, y]}", "{args: [w, y], 'args[1]': x}"),
        ("{net: {port: 3}}", "{net: {port: 3}, net.port: 9}"),
        ("{net: {port: 9}}", "{net: {port: 9}, net.port: 3}"),
        ("{o: {p: {}}}", "{o: {p: {r: 1}}}"),
        ("{o: {}}", "{o: {r: 1}}"),
        ("{o: {p: {q: x}}}", "{o: {p: {q: x, r: 1}, s: 2}, o.p.q: y}"),
        ("{Data: {'#text': mimikatz.exe}}", "{Data: {'#text': notepad.exe}}"),
        ("{Data: {'#text': mimikatz.exe, '#attributes': {Name: x}}, host: ws1}", "{Data: {}, host: ws1}"),
        ("{Data: {text: mimikatz, value: mimikatz, '0': mimikatz}}", "{Data: {other: 1}}"),
        ("{Data: [{'#text': mimikatz}]}", "{Data: [{'#text': x}]}"),
        ("{conns: [{dst: {ip: 10.0.0.1, port: 443}}]}", "{conns: [{dst: {ip: 10.0.0.1, port: 443}, proto: tcp}]}"),
        ("{conns: {dst: {ip: 10.0.0.1, port: 443}}}", "{conns: {dst: {ip: 10.0.0.1, port: 443}, proto: tcp, n: 1}}"),
        ("{conns: [{args: [a, b]}]}", "{conns: [{args: [a, b], pid: 1}]}"),
        ("{conns: [{dst: {ip: 10.0.0.1, port: 80}}]}", "{conns: [{dst: {ip: 10.0.0.1, port: 80}, proto: tcp, x: 1, y: 2}]}"),
        ("{conns: [{dst: {ip: 10.0.0.1, port: 443, zone: dmz}}], host: ws1}", "{conns: [{dst: {ip: 10.0.0.1, port: 443, zone: dmz}, a: 1, b: 2, c: 3}], host: ws1}"),
        ("{conns: [{x: 1}, {dst: {ip: 10.0.0.1, port: 443}}]}", "{conns: [{x: 1, y: 2, z: 3}, {dst: {ip: 10.0.0.1, port: 443}}]}"),
        ("{procs: {count: 1}}", "{procs: {count: 1, p1: {name: evil.exe, pid: 4}}}"),
        ("{procs: {name: evil.exe}}", "{procs: {name: evil.exe, p1: {name: evil.exe, pid: 4}, p2: {pid: 4}}}"),
        ("{procs: {}}", "{procs: {a: {b: {name: evil.exe, pid: 4}}}}"),
        ("{args: {raw: x}}", "{args: {raw: x, '1': x}}"),
        ("{proc: {args: {n: 1}}}", "{proc: {args: {n: 1, '0': mimikatz.exe}}}"),
        ("{cmd: {argv: {}}}", "{cmd: {argv: {'2': lsass.dmp}}}"),
        ("{cmd: {argv: [a, b]}}", "{cmd: {argv: [a, b], 'argv[2]': lsass.dmp}}"),
        ("{Event: {EventID: 4688, Image: cmd.exe}}", "{Event: {EventID: 4688, Image: cmd.exe}, machine: ws-01}"),
        ("{Event: {}}", "{Event: {EventID: 4688, Image: cmd.exe}}"),
        ("{_source: {EventID: 4688}}", "{_source: {EventID: 1}}"),
        ("{Event: {EventID: 4688}}", "{Event: {EventID: 4688, EventData: {EventID: 1}}}"),
        ("{Event: {System: {}}}", "{Event: {System: {EventID: 4688, Image: cmd.exe}}}"),
        ("{'<<': {name: evil}}", "{'<<': {name: good}}"),
        ("{other: 1}", "{other: 1, '<<': {name: evil, EventID: 4688}}"),
        ("{'<<': [{name: evil}, {EventID: 4688}]}", "{'<<': []}"),
        ("{proc: {'<<': {name: evil}}}", "{proc: {}}"),
        ("{proc: [{'<<': {name: evil}}]}", "{proc: [{'<<': 1}]}"),
        ("{Event: {'<<': {EventID: 4688}}}", "{Event: {}}"),
        ("{'~': {name: evil}, 'null': {name: evil}}", "{'~': 1}"),
    ];
    for (body, conds) in rules.iter() {
        for cond in conds {
            let text = format!("detection:\n  A:\n    {}\n  condition: {}\ntrue_positives: []\ntrue_negatives: []\n", body, cond);
            let base = match tau_engine::Rule::from_str(&text) {
                Ok(r) => r,
                Err(_) => continue,
            };
            let dummy = Exchange { line: format!("fixed-pairs {}", hash_str(&text)), imp: String::new(), model: String::new(), agree: true, supported: false };
            for mask in 0..16u64 {
                let rl = if mask == 0 { base.clone() } else { base.clone().optimise(crate::implside::opts(mask)) };
                for (a, b) in pairs.iter() {
                    ctx.evaluations += 1;
                    ctx.nontrivial.insert(hash_str(&format!("{}{}{}", text, a, b)));
                    let (ya, yb): (Yaml, Yaml) = (serde_yaml::from_str(a).unwrap(), serde_yaml::from_str(b).unwrap());
                    let (ja, jb): (serde_json::Value, serde_json::Value) = (serde_yaml::from_str(a).unwrap(), serde_yaml::from_str(b).unwrap());
                    let as_map = |j: &serde_json::Value| -> HashMap<String, serde_json::Value> { j.as_object().map(|o| o.iter().map(|(k, v)| (k.clone(), v.clone())).collect()).unwrap_or_default() };
                    let reps = [
                        ("YAML mapping", rl.matches(ya.as_mapping().unwrap()), rl.matches(yb.as_mapping().unwrap())),
                        ("serde_json value", rl.matches(&ja), rl.matches(&jb)),
                        ("HashMap<String, serde_json::Value>", rl.matches(&as_map(&ja)), rl.matches(&as_map(&jb))),
                    ];
                    for (name, va, vb) in reps.iter() {
                        if va != vb || *va != reps[0].1 {
                            ctx.violation("oracle", &format!("mask {}: documents {} and {} differ only in fields no predicate addresses, yet as {} they give {} and {} (YAML mapping: {})", mask, a, b, name, va, vb, reps[0].1), &dummy, &text, true);
                            break;
                        }
                    }
                }
            }
        }
    }
}

// ---------------------------------------------------------------------------------- C04

pub const SPECIALS: &[&str] = &["\"", "'", "i", "?", "*", "(", ")", "[", "=", ">", ".", "-", " ", ",", "\u{b}", "\u{a0}", "a", "1", "\\", "#", "é", "²"];

pub fn run_c04(ctx: &mut Ctx, _known: &Known) {
    run_implonly(ctx);
    // exhaustive: all strings up to length 3 over the special alphabet, in every textual layer
    let alpha: Vec<&str> = SPECIALS.iter().take(if ctx.tier == "thorough" { 22 } else { 16 }).cloned().collect();
    let mut strings: Vec<String> = vec![String::new()];
    let mut frontier = vec![String::new()];
    for _ in 0..3 {
        let mut next = vec![];
        for s in &frontier {
            for a in &alpha {
                next.push(format!("{}{}", s, a));
            }
        }
        strings.extend(next.iter().cloned());
        frontier = next;
    }
    ctx.exhaustive = true;
    for s in &strings {
        layer_checks(ctx, s);
    }
    // digits that are numeric for Unicode but not ASCII, next to ASCII digits, signs and points
    for u in ["²", "٣", "①", "½", "５", "৩", "Ⅷ", "〇", "⁵", "१", "๓", "𝟙"] {
        for t in ["1{}", "-{}", "{}1", "{}", "1.{}", "1.5{}", "of(A, 1{})", "of(A, {})", "A and 1{}", "int(f) > 5{}", "int(f) > {}", "foo 5{}", "12{}3", "{}{}", "-1{}", "1{}.5", "flt(f) >= 1.{}", "A{}", "{}A", "=1{}", ">={}", "[{}]", "f[1{}]", "f[{}]"] {
            layer_checks(ctx, &t.replace("{}", u));
        }
    }
    // keyword-adjacent and random UTF-8 strings
    let n = budget(ctx, 1500, 40000);
    let pieces = ["and ", "or ", "not ", "not(", "all(", "of(", "int(", "str(", "string(", "flt(", "A", "B", "foo", " ", "(", ")", ",", "1", "1.5", "==", ">=", "<", "é", "日", "٣", "-", ".", "#", "[0]", "_", "\t", "and", "or", "\"", "'", "*", "?", "i", "\\", "{", "}", "|", "^", "$", "+", "\u{0}", "\u{b}", "\u{c}", "\r", "\n", "\u{85}", "\u{a0}", "\u{2003}", "\u{3000}", "\u{feff}", "-9223372036854775808", "9223372036854775808", "-9223372036854775809", "9223372036854775807", "-1", "-0", "1e400", "-.5", "18446744073709551616"];
    for i in 0..n {
        let mut r = case_rng(ctx, i);
        let k = 1 + r.below(7);
        let s: String = (0..k).map(|_| *r.pick(&pieces)).collect();
        layer_checks(ctx, &s);
    }
    // Rule::from_value on every YAML shape at the root (and one level down): an error value or a rule
    {
        use serde_yaml::value::{Tag, TaggedValue};
        let tag = |v: Yaml| Yaml::Tagged(Box::new(TaggedValue { tag: Tag::new("t"), value: v }));
        let good: Yaml = serde_yaml::from_str("detection:\n  A:\n    foo: bar\n  condition: A\ntrue_positives: []\ntrue_negatives: []\n").unwrap();
        let mut roots: Vec<Yaml> = vec![
            gen::ys("text"), gen::ys(""), Yaml::Bool(true), Yaml::Number(5.into()), Yaml::Number(2.5f64.into()), Yaml::Null,
            Yaml::Sequence(vec![]), Yaml::Sequence(vec![good.clone()]), Yaml::Sequence(vec![gen::ys("a"), Yaml::Null]),
            tag(gen::ys("x")), tag(good.clone()), tag(Yaml::Sequence(vec![])), tag(Yaml::Null), tag(tag(Yaml::Bool(false))),
            Yaml::Mapping(serde_yaml::Mapping::new()), map1y("detection", gen::ys("x")), map1y("detection", Yaml::Sequence(vec![])), map1y("detection", Yaml::Null),
            map1y("true_positives", Yaml::Sequence(vec![])), map1y("optimised", Yaml::Bool(true)),
        ];
        // the good rule with one field replaced by each odd shape
        for key in ["detection", "true_positives", "true_negatives", "optimised"] {
            for odd in [gen::ys("x"), Yaml::Bool(true), Yaml::Number(1.into()), Yaml::Null, Yaml::Sequence(vec![gen::ys("x")]), tag(gen::ys("x")), Yaml::Mapping(serde_yaml::Mapping::new())] {
                let mut m = good.as_mapping().unwrap().clone();
                m.insert(gen::ys(key), odd);
                roots.push(Yaml::Mapping(m));
            }
            let mut m = good.as_mapping().unwrap().clone();
            m.remove(gen::ys(key));
            roots.push(Yaml::Mapping(m));
        }
        for v in roots {
            ctx.evaluations += 1;
            let shown = serde_yaml::to_string(&v).unwrap_or_default();
            ctx.distinct.insert(hash_str(&format!("from_value {}", shown)));
            let r = std::panic::catch_unwind(|| tau_engine::Rule::from_value(v.clone()).map(|r| r.validate().is_ok()));
            match r {
                Ok(Ok(_)) => { ctx.nontrivial.insert(hash_str(&shown)); }
                Ok(Err(_)) => {}
                Err(_) => {
                    let ex = Exchange { line: format!("from_value {}", hash_str(&shown)), imp: "PANIC".into(), model: String::new(), agree: true, supported: false };
                    ctx.violation("oracle", &format!("Rule::from_value panics on the YAML value {}", trunc(&shown.replace('\n', " "), 200)), &ex, &shown, true);
                }
            }
        }
    }
    // rule TEXT that is not well-formed YAML (or is several documents): Rule::from_str returns
    // (implementation only, under the watchdog)
    {
        let good = "detection:\n  A:\n    foo: bar\n  condition: A\ntrue_positives: []\ntrue_negatives: []\n";
        let mut texts: Vec<String> = vec![
            "true_negatives: [".into(), "condition: 'A".into(), "a: b: c".into(), "...".into(), "\tdetection: x".into(), "---\n---\n".into(),
            format!("---\nheader: 1\n---\n{}", good), format!("{}---\n{}", good, good), format!("{}...\nrest", good), "detection: {A: {foo: bar}, condition: A".into(),
            "- a\n- b: [".into(), "&a [*a]".into(), "? [\n".into(), "\u{feff}detection: x".into(), "%YAML 1.2\n---\nfoo".into(), "detection:\n  A: *nope\n  condition: A\n".into(),
        ];
        // repeated keys at every level and position (serde's map protocol: a key whose value is
        // not consumed derails the reader), with scalar / list / mapping values
        for dupval in ["A and B", "not A", "A", "1", "~", "true", "''", "[a]", "{f: x}", "B"] {
            for (k, ind) in [("condition", "  "), ("A", "  "), ("B", "  ")] {
                let v = if dupval.starts_with('{') || dupval.starts_with('[') { dupval.to_string() } else { format!("{}", dupval) };
                // last entry of the detection block
                texts.push(format!("detection:\n  A:\n    foo: bar\n  B:\n    g: 1\n  condition: A\n{}{}: {}\ntrue_positives: []\ntrue_negatives: []\n", ind, k, v));
                // last entry of the document
                texts.push(format!("true_positives: []\ntrue_negatives: []\ndetection:\n  A:\n    foo: bar\n  B:\n    g: 1\n  condition: A\n{}{}: {}\n", ind, k, v));
                // first entry
                texts.push(format!("detection:\n{}{}: {}\n  A:\n    foo: bar\n  B:\n    g: 1\n  condition: A\ntrue_positives: []\ntrue_negatives: []\n", ind, k, v));
            }
            texts.push(format!("detection:\n  A:\n    foo: bar\n  condition: A\ntrue_positives: []\ntrue_negatives: []\ntrue_positives: {}\n", dupval));
            texts.push(format!("detection:\n  A:\n    foo: bar\n  condition: A\ntrue_negatives: []\ntrue_positives: []\ndetection: {}\n", dupval));
            texts.push(format!("optimised: {}\ndetection:\n  A:\n    foo: bar\n  condition: A\ntrue_negatives: []\ntrue_positives: []\noptimised: {}\n", dupval, dupval));
            texts.push(format!("detection:\n  A:\n    foo: bar\n    foo: {}\n  condition: A\ntrue_negatives: []\ntrue_positives: []\n", dupval));
        }
        // error paths at every LENGTH of the name / key / pattern involved (fixed-size scratch
        // buffers, edit-distance rows, truncated messages: the thresholds are powers of two and
        // their neighbours): an undefined identifier next to a defined one of that length, an
        // invalid regex, an unclosed modifier, an invalid character behind that many bytes
        {
            let mut lens: Vec<usize> = (1..=70).collect();
            lens.extend([126, 127, 128, 129, 130, 254, 255, 256, 257, 258, 511, 512, 513, 1000, 1023, 1024, 1025, 4096]);
            for l in lens {
                let name = format!("N{}", "a".repeat(l - 1));
                let typo = format!("N{}b", "a".repeat(l.saturating_sub(2)));
                let multi = format!("N{}", "é".repeat(l / 2));
                texts.push(format!("detection:\n  {}:\n    foo: bar\n  condition: {}\ntrue_positives: []\ntrue_negatives: []\n", name, typo));
                texts.push(format!("detection:\n  {}:\n    foo: bar\n  B:\n    g: 1\n  condition: B and {}x\ntrue_positives: []\ntrue_negatives: []\n", name, name));
                texts.push(format!("detection:\n  {}:\n    foo: bar\n  condition: {} and Q\ntrue_positives: []\ntrue_negatives: []\n", multi, multi));
                texts.push(format!("detection:\n  {}:\n    foo: bar\n  condition: {}\ntrue_positives: []\ntrue_negatives: []\n", name, name));
                texts.push(format!("detection:\n  A:\n    foo: '?({}'\n  condition: A\ntrue_positives: []\ntrue_negatives: []\n", "a".repeat(l)));
                texts.push(format!("detection:\n  A:\n    'int({}': 1\n  condition: A\ntrue_positives: []\ntrue_negatives: []\n", "k".repeat(l)));
                texts.push(format!("detection:\n  A:\n    foo: bar\n  condition: A and {}#\ntrue_positives: []\ntrue_negatives: []\n", "A and ".repeat(l / 6)));
                texts.push(format!("detection:\n  A:\n    foo: ['{}', 5]\n  condition: all(A\ntrue_positives: []\ntrue_negatives: []\n", "x".repeat(l)));
            }
        }
        let m = budget(ctx, 300, 5000);
        for i in 0..m {
            let mut r = case_rng(ctx, 3_000_000 + i);
            let mut t: Vec<char> = good.chars().collect();
            for _ in 0..1 + r.below(3) {
                let pos = r.below(t.len() + 1);
                match r.below(3) {
                    0 => { if pos < t.len() { t.remove(pos); } }
                    1 => t.insert(pos.min(t.len()), *r.pick(&['[', ']', '{', '}', ':', '\'', '"', '\t', '-', '&', '*', '!', '|', '>', '#', '\n', ' ', '%', '@', '`', '?'])),
                    _ => { if pos < t.len() { t[pos] = *r.pick(&['[', '{', ':', '\'', '"', '\t', '\n']); } }
                }
            }
            texts.push(t.into_iter().collect());
        }
        for t in texts {
            let line = format!("loadtext {}", crate::sx::enc(&t));
            let imp = ctx.impl_only(&line);
            ctx.stat("loadtext");
            if imp.starts_with("load=ok") {
                ctx.nontrivial.insert(hash_str(&line));
            }
            if imp.starts_with("PANIC") || imp.starts_with("HANG") {
                let ex = Exchange { line: line.clone(), imp: imp.clone(), model: String::new(), agree: true, supported: false };
                if imp.starts_with("PANIC") {
                    ctx.violation("oracle", &format!("Rule::from_str panicked on text {:?}: {}", trunc(&t, 120), trunc(&imp, 200)), &ex, &t, true);
                }
            }
        }
    }
    // malformed rules: YAML shapes in every position
    let m = budget(ctx, 800, 20000);
    for i in 0..m {
        let mut r = case_rng(ctx, 1_000_000 + i);
        let mut c = gen_case(&mut r, vec![0, 15], 1);
        mutate_rule(&mut r, &mut c);
        let (ex, _) = run_rule_case(ctx, &c, false);
        if ex.imp.contains("PANIC") {
            let ry = rule_yaml(&c);
            ctx.violation("oracle", &format!("malformed:{}: loading panicked: {}", i, trunc(&ex.imp, 200)), &ex, &ry, true);
        }
    }
}

fn layer_checks(ctx: &mut Ctx, s: &str) {
    let mut lines = vec![
        format!("tok {}", crate::sx::enc(s)),
        case::pat_line(false, s),
    ];
    // as mapping key, as pattern in a list, as condition
    let mut m = serde_yaml::Mapping::new();
    m.insert(gen::ys(s), gen::ys("x"));
    lines.push(case::ident_line(false, &Yaml::Mapping(m)));
    let mut m2 = serde_yaml::Mapping::new();
    m2.insert(gen::ys("f"), Yaml::Sequence(vec![gen::ys(s), gen::ys(&format!("i{}", s)), gen::ys("a*")]));
    lines.push(case::ident_line(false, &Yaml::Mapping(m2)));
    let mut a = serde_yaml::Mapping::new();
    a.insert(gen::ys("f"), gen::ys("x"));
    let c = CaseReq {
        optimised: false,
        det: vec![("A".into(), Yaml::Mapping(a)), ("condition".into(), gen::ys(s))],
        tps: vec![],
        tns: vec![],
        docs: vec![],
        masks: vec![0],
    };
    lines.push(case::case_line(false, &c));
    for line in lines {
        let ex = ctx.exchange(&line);
        ctx.check_agree(&ex, s);
        if ex.imp.starts_with("PANIC") || ex.imp.contains(" PANIC") {
            ctx.violation("oracle", &format!("layer input {:?}: panic: {}", s, trunc(&ex.imp, 200)), &ex, s, true);
        }
        if ex.imp.starts_with("ok") || ex.imp.starts_with("load=ok") {
            ctx.nontrivial.insert(hash_str(&ex.line));
        }
        if ctx.samples.len() < 6 && !s.is_empty() {
            ctx.sample(json!({"input": s, "request": trunc(&ex.line, 80), "impl": trunc(&ex.imp, 120)}));
        }
    }
}

fn mutate_rule(r: &mut Rng, c: &mut CaseReq) {
    let shapes = [
        Yaml::Null,
        Yaml::Bool(true),
        Yaml::Number(1.into()),
        Yaml::Number(1.5.into()),
        gen::ys(""),
        Yaml::Sequence(vec![]),
        Yaml::Sequence(vec![Yaml::Null]),
        Yaml::Sequence(vec![Yaml::Sequence(vec![gen::ys("a")])]),
        Yaml::Mapping(serde_yaml::Mapping::new()),
    ];
    fn poke(r: &mut Rng, y: &mut Yaml, shapes: &[Yaml]) {
        match y {
            Yaml::Mapping(m) if !m.is_empty() && r.chance(70) => {
                let idx = r.below(m.len());
                if let Some((_, v)) = m.iter_mut().nth(idx) {
                    poke(r, v, shapes);
                }
            }
            Yaml::Sequence(xs) if !xs.is_empty() && r.chance(70) => {
                let idx = r.below(xs.len());
                poke(r, &mut xs[idx], shapes);
            }
            _ => *y = r.pick(shapes).clone(),
        }
    }
    let idx = r.below(c.det.len());
    if c.det[idx].0 == "condition" && r.chance(60) {
        return;
    }
    let mut v = c.det[idx].1.clone();
    poke(r, &mut v, &shapes);
    c.det[idx].1 = v;
    if r.chance(10) {
        // nested to depth 60 (bounded: the property excludes stack exhaustion beyond 64)
        let mut deep = gen::ys("x");
        for _ in 0..60 {
            let mut m = serde_yaml::Mapping::new();
            m.insert(gen::ys("k"), deep);
            deep = Yaml::Mapping(m);
        }
        c.det.push(("Z".into(), deep));
    }
}
