//! The Lean model driver as a child process (one request line in, one reply line out).

use std::io::{BufRead, BufReader, Write};
use std::process::{Child, ChildStdin, ChildStdout, Command, Stdio};

pub struct Driver {
    child: Child,
    stdin: ChildStdin,
    stdout: BufReader<ChildStdout>,
}

pub fn driver_path() -> String {
    std::env::var("TAU_DRIVER").unwrap_or_else(|_| "/verif/lean/.lake/build/bin/taudriver".to_string())
}

impl Driver {
    pub fn spawn() -> std::io::Result<Driver> {
        Self::spawn_cmd(&driver_path(), &[])
    }
    pub fn spawn_cmd(path: &str, args: &[&str]) -> std::io::Result<Driver> {
        let mut child = Command::new(path)
            .args(args)
            .stdin(Stdio::piped())
            .stdout(Stdio::piped())
            .spawn()?;
        let stdin = child.stdin.take().unwrap();
        let stdout = BufReader::new(child.stdout.take().unwrap());
        Ok(Driver { child, stdin, stdout })
    }
    pub fn spawn_cmd_env(path: &str, args: &[&str], envs: &[(String, String)]) -> std::io::Result<Driver> {
        let mut cmd = Command::new(path);
        cmd.args(args).stdin(Stdio::piped()).stdout(Stdio::piped());
        for (k, v) in envs {
            cmd.env(k, v);
        }
        let mut child = cmd.spawn()?;
        let stdin = child.stdin.take().unwrap();
        let stdout = BufReader::new(child.stdout.take().unwrap());
        Ok(Driver { child, stdin, stdout })
    }
    pub fn ask(&mut self, line: &str) -> String {
        if writeln!(self.stdin, "{}", line).is_err() || self.stdin.flush().is_err() {
            return "DRIVER-DEAD".into();
        }
        let mut reply = String::new();
        match self.stdout.read_line(&mut reply) {
            Ok(0) | Err(_) => "DRIVER-DEAD".into(),
            Ok(_) => reply.trim_end_matches(|c| c == '\n' || c == '\r').to_string(),
        }
    }
}

impl Drop for Driver {
    fn drop(&mut self) {
        let _ = self.child.kill();
        let _ = self.child.wait();
    }
}
