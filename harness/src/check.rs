//! Check orchestration: runs cases through the implementation and the Lean model, compares the
//! replies (correspondence), evaluates each property's oracle on the implementation, classifies
//! failures (known finding / violation / no-failing-input-found) and writes the exploration part
//! of the evidence.

use std::collections::{BTreeMap, HashSet};
use std::hash::{Hash, Hasher};

use serde_json::json;
use serde_yaml::Value as Yaml;

use crate::case;
use crate::driver::Driver;
use crate::gen::{self, Rng};
use crate::implside::{self, CaseReq};

#[derive(Clone, Debug)]
pub struct MaskOut {
    pub mask: u64,
    pub tree: String,
    pub res: Vec<(String, Vec<String>)>, // (T/F/M, trace keys as s:hex)
    pub val: String,
}

#[derive(Clone, Debug)]
pub struct Parsed {
    pub load: String, // "ok" or the error text
    pub expr: String,
    pub ids: String,
    pub masks: Vec<MaskOut>,
}

pub fn parse_reply(r: &str) -> Option<Parsed> {
    let segs: Vec<&str> = r.split(" ; ").collect();
    let load = segs.first()?.strip_prefix("load=")?.to_string();
    if load != "ok" {
        return Some(Parsed { load, expr: String::new(), ids: String::new(), masks: vec![] });
    }
    let expr = segs.get(1)?.strip_prefix("expr=")?.to_string();
    let ids = segs.get(2)?.strip_prefix("ids=")?.to_string();
    let mut masks = vec![];
    let mut i = 3;
    while i + 2 < segs.len() {
        let t = segs[i];
        let (name, tree) = t.split_once('=')?;
        let mask: u64 = name.strip_prefix("opt")?.parse().ok()?;
        let (_, resb) = segs.get(i + 1)?.split_once('=')?;
        let mut res = vec![];
        if !resb.is_empty() {
            for d in resb.split(' ') {
                let (tri, rest) = d.split_once('[').unwrap_or((d, "]"));
                let keys = rest.trim_end_matches(']');
                let trace: Vec<String> =
                    if keys.is_empty() { vec![] } else { keys.split(',').map(|s| s.to_string()).collect() };
                res.push((tri.to_string(), trace));
            }
        }
        let (_, val) = segs.get(i + 2)?.split_once('=')?;
        masks.push(MaskOut { mask, tree: tree.to_string(), res, val: val.to_string() });
        i += 3;
    }
    Some(Parsed { load, expr, ids, masks })
}

#[derive(Clone, Debug)]
pub struct Violation {
    pub kind: String, // "oracle" | "correspondence" | "panic"
    pub what: String,
    pub line: String,
    pub imp: String,
    pub model: String,
    pub rule_yaml: String,
    pub failing_input_found: bool,
}

/// The implementation side runs on a worker thread so that a request that never returns (an
/// infinite loop in the engine) is reported instead of hanging the check.
pub struct Worker {
    tx: std::sync::mpsc::Sender<String>,
    rx: std::sync::mpsc::Receiver<String>,
}

impl Worker {
    pub fn spawn() -> Worker {
        let (tx, rx_in) = std::sync::mpsc::channel::<String>();
        let (tx_out, rx) = std::sync::mpsc::channel::<String>();
        std::thread::Builder::new()
            .stack_size(64 << 20)
            .spawn(move || {
                for line in rx_in {
                    if tx_out.send(implside::handle(&line)).is_err() {
                        break;
                    }
                }
            })
            .expect("worker thread");
        Worker { tx, rx }
    }
    pub fn ask(&self, line: &str, secs: u64) -> Option<String> {
        self.tx.send(line.to_string()).ok()?;
        self.rx.recv_timeout(std::time::Duration::from_secs(secs)).ok()
    }
}

pub struct Ctx {
    pub worker: Option<Worker>,
    pub hung: bool,
    pub prop: String,
    pub tier: String,
    pub seed: u64,
    pub drv: Driver,
    pub evaluations: usize,
    pub distinct: HashSet<u64>,
    pub nontrivial: HashSet<u64>,
    pub samples: Vec<serde_json::Value>,
    pub violations: Vec<Violation>,
    pub known_hits: BTreeMap<String, usize>,
    pub stats: BTreeMap<String, usize>,
    pub traces_validated: usize,
    pub model_unsupported: usize,
    pub exhaustive: bool,
    /// the same harness built with the engine's `sync` feature (second copies of the Object / Array /
    /// Document trait definitions): every request is answered by it as well
    pub sync_peer: Option<Driver>,
}

pub fn hash_str(s: &str) -> u64 {
    let mut h = std::collections::hash_map::DefaultHasher::new();
    s.hash(&mut h);
    h.finish()
}

pub struct Exchange {
    pub line: String,
    pub imp: String,
    pub model: String,
    pub agree: bool,
    pub supported: bool,
}

impl Ctx {
    pub fn new(prop: &str, tier: &str, seed: u64) -> Ctx {
        Ctx {
            worker: None,
            hung: false,
            prop: prop.to_string(),
            tier: tier.to_string(),
            seed,
            drv: Driver::spawn().expect("cannot start the Lean driver (run setup_cmd)"),
            evaluations: 0,
            distinct: HashSet::new(),
            nontrivial: HashSet::new(),
            samples: vec![],
            violations: vec![],
            known_hits: BTreeMap::new(),
            stats: BTreeMap::new(),
            traces_validated: 0,
            model_unsupported: 0,
            exhaustive: false,
            sync_peer: match std::env::var("TAUH_SYNC_BIN") { Ok(p) if !p.is_empty() => Driver::spawn_cmd(&p, &["serve"]).ok(), _ => None },
        }
    }

    pub fn stat(&mut self, k: &str) {
        *self.stats.entry(k.to_string()).or_insert(0) += 1;
    }

    /// Send one request line to both sides.
    pub fn exchange(&mut self, line: &str) -> Exchange {
        self.evaluations += 1;
        self.distinct.insert(hash_str(line));
        if self.hung {
            // the engine is spinning on an earlier request; that violation is already recorded
            return Exchange { line: line.to_string(), imp: "skipped-after-hang".into(), model: "skipped-after-hang".into(), agree: true, supported: false };
        }
        if self.worker.is_none() {
            self.worker = Some(Worker::spawn());
        }
        let limit = if self.tier == "thorough" { 120 } else { 30 };
        let imp = match self.worker.as_ref().unwrap().ask(line, limit) {
            Some(s) => s,
            None => {
                self.hung = true;
                self.worker = None;
                let imp = format!("HANG no reply within {} s", limit);
                let ex = Exchange { line: line.to_string(), imp: imp.clone(), model: String::new(), agree: false, supported: true };
                self.violation("oracle", &format!("the implementation did not return within {} s on this request (non-termination)", limit), &ex, line, true);
                imp
            }
        };
        if imp.starts_with("LOGDIFF") {
            let ex = Exchange { line: line.to_string(), imp: imp.clone(), model: String::new(), agree: false, supported: true };
            self.violation("oracle", &format!("the engine answers this request differently when a logging subscriber is installed: {}", trunc(&imp, 500)), &ex, line, true);
        }
        if let Some(peer) = self.sync_peer.as_mut() {
            let other = peer.ask(line);
            if other != imp && other != "DRIVER-DEAD" && !imp.starts_with("HANG") {
                self.stat("sync-build-differs");
                let ex = Exchange { line: line.to_string(), imp: imp.clone(), model: other.clone(), agree: false, supported: true };
                self.violation("oracle", &format!("the build with the engine's `sync` feature answers this request differently: {}", first_diff(&imp, &other)), &ex, line, true);
            } else {
                self.stat("sync-build-agrees");
            }
        }
        let mut model = self.drv.ask(line);
        if model == "DRIVER-DEAD" {
            // restart once
            self.drv = Driver::spawn().expect("driver");
            model = self.drv.ask(line);
        }
        let supported = !model.starts_with("unsupported");
        if !supported {
            self.model_unsupported += 1;
        }
        let agree = !supported || imp == model || (imp.starts_with("PANIC") && model.starts_with("PANIC"));
        Exchange { line: line.to_string(), imp, model, agree, supported }
    }

    /// Run a request on the implementation only (shapes whose outcome depends on limits of an
    /// external crate that the model does not carry, e.g. the size limit of a regex set).
    pub fn impl_only(&mut self, line: &str) -> String {
        self.evaluations += 1;
        self.distinct.insert(hash_str(line));
        if self.hung {
            return "skipped-after-hang".into();
        }
        if self.worker.is_none() {
            self.worker = Some(Worker::spawn());
        }
        let limit = if self.tier == "thorough" { 120 } else { 30 };
        match self.worker.as_ref().unwrap().ask(line, limit) {
            Some(s) => {
                if s.starts_with("LOGDIFF") {
                    let ex = Exchange { line: line.to_string(), imp: s.clone(), model: String::new(), agree: false, supported: false };
                    self.violation("oracle", &format!("the engine answers this request differently when a logging subscriber is installed: {}", trunc(&s, 500)), &ex, line, true);
                }
                s
            }
            None => {
                self.hung = true;
                self.worker = None;
                let imp = format!("HANG no reply within {} s", limit);
                let ex = Exchange { line: line.to_string(), imp: imp.clone(), model: String::new(), agree: false, supported: false };
                self.violation("oracle", &format!("the implementation did not return within {} s on this request (non-termination)", limit), &ex, line, true);
                imp
            }
        }
    }

    /// Run something that may ABORT the process (native stack exhaustion, allocation failure): the
    /// input is written to `replays/` first and removed when the call returns, so that a dead
    /// harness leaves its failing input behind (the check script reports it).
    pub fn risky<T>(&mut self, label: &str, input: &str, f: impl FnOnce() -> T) -> T {
        let _ = std::fs::create_dir_all("/verif/replays");
        let path = format!("/verif/replays/{}_{}_early_risky.json", self.prop, self.seed);
        let body = serde_json::json!({
            "property": self.prop, "kind": "oracle",
            "what": format!("the harness process died (abort: stack overflow / allocation failure) while the engine evaluated this input: {}", label),
            "rule_or_input": input,
        });
        let _ = std::fs::write(&path, serde_json::to_string_pretty(&body).unwrap_or_default());
        let out = f();
        let _ = std::fs::remove_file(&path);
        out
    }

    pub fn sample(&mut self, v: serde_json::Value) {
        if self.samples.len() < 6 {
            self.samples.push(v);
        }
    }

    pub fn violation(&mut self, kind: &str, what: &str, ex: &Exchange, rule_yaml: &str, found: bool) {
        if found && kind != "correspondence" && self.violations.iter().filter(|v| v.failing_input_found).count() < 3 {
            // written at once: a later abort inside the engine (allocation failure, stack overflow)
            // would otherwise take the failing inputs found so far with it
            let _ = std::fs::create_dir_all("/verif/replays");
            let path = format!("/verif/replays/{}_{}_early{}.json", self.prop, self.seed, self.violations.len());
            let body = serde_json::json!({
                "property": self.prop, "kind": kind, "what": what, "request": ex.line,
                "implementation_reply": ex.imp, "model_reply": ex.model, "rule_or_input": rule_yaml,
            });
            let _ = std::fs::write(&path, serde_json::to_string_pretty(&body).unwrap_or_default());
        }
        // correspondence disagreements must not crowd out failing inputs of the property's own oracle
        let room = if kind == "correspondence" { self.violations.iter().filter(|v| v.kind == "correspondence").count() < 50 } else { self.violations.iter().filter(|v| v.kind != "correspondence").count() < 50 };
        if room {
            self.violations.push(Violation {
                kind: kind.to_string(),
                what: what.to_string(),
                line: ex.line.clone(),
                imp: ex.imp.clone(),
                model: ex.model.clone(),
                rule_yaml: rule_yaml.to_string(),
                failing_input_found: found,
            });
        }
    }

    /// Correspondence bookkeeping shared by every property: a disagreement between the model and
    /// the implementation is recorded as a correspondence violation (the caller may later upgrade
    /// it with a failing input for its own oracle).
    pub fn check_agree(&mut self, ex: &Exchange, rule_yaml: &str) -> bool {
        if ex.imp.starts_with("PANIC") || ex.imp.contains(" PANIC") {
            self.stat("impl-panic");
        }
        if !ex.agree {
            self.stat("disagreement");
            let what = first_diff(&ex.imp, &ex.model);
            self.violation("correspondence", &what, ex, rule_yaml, false);
            return false;
        }
        if ex.supported {
            self.traces_validated += 1;
        }
        true
    }
}

pub fn first_diff(a: &str, b: &str) -> String {
    let sa: Vec<&str> = a.split(" ; ").collect();
    let sb: Vec<&str> = b.split(" ; ").collect();
    for i in 0..sa.len().max(sb.len()) {
        let x = sa.get(i).unwrap_or(&"<none>");
        let y = sb.get(i).unwrap_or(&"<none>");
        if x != y {
            let name = x.split('=').next().unwrap_or("?");
            return format!("segment {} ({}): impl `{}` model `{}`", i, name, trunc(x, 400), trunc(y, 400));
        }
    }
    "equal".into()
}

pub fn trunc(s: &str, n: usize) -> String {
    if s.chars().count() <= n {
        s.to_string()
    } else {
        let t: String = s.chars().take(n).collect();
        format!("{}…", t)
    }
}

pub fn rule_yaml(c: &CaseReq) -> String {
    serde_yaml::to_string(&implside::rule_value(c)).unwrap_or_default()
}

pub fn docs_yaml(c: &CaseReq) -> Vec<String> {
    c.docs.iter().map(|d| serde_yaml::to_string(d).unwrap_or_default()).collect()
}

// ------------------------------------------------------------------------------------------
// generic random rule cases

pub fn gen_case(r: &mut Rng, masks: Vec<u64>, ndocs: usize) -> CaseReq {
    if r.chance(22) {
        let (det, extra) = gen::gen_special(r);
        let mut docs: Vec<Yaml> = extra;
        while docs.len() < ndocs.max(1) {
            docs.push(gen::gen_doc(r));
        }
        return CaseReq { optimised: false, det, tps: vec![], tns: vec![], docs, masks };
    }
    let n_ids = 1 + r.below(3);
    let names = ["A", "B", "C", "D"];
    let mut det: Vec<(String, Yaml)> = vec![];
    for name in names.iter().take(n_ids) {
        det.push((name.to_string(), gen::gen_identifier(r)));
    }
    let ids: Vec<String> = det.iter().map(|(k, _)| k.clone()).collect();
    let cond = gen::gen_cond(r, &ids, 0);
    let text = gen::print_cond(&cond, r, 10);
    let pos = r.below(det.len() + 1);
    det.insert(pos, ("condition".to_string(), gen::ys(&text)));
    let docs: Vec<Yaml> = (0..ndocs).map(|_| gen::gen_doc(r)).collect();
    let tps = if r.chance(30) { vec![gen::gen_doc(r)] } else { vec![] };
    let tns = if r.chance(30) { vec![gen::gen_doc(r), Yaml::Number(5.into())] } else { vec![] };
    CaseReq { optimised: false, det, tps, tns, docs, masks }
}

/// Load the `#### name / rule / ##doc` corpus format.
pub fn load_corpus_file(path: &str) -> Vec<(String, CaseReq)> {
    let text = match std::fs::read_to_string(path) {
        Ok(t) => t,
        Err(_) => return vec![],
    };
    let mut out = vec![];
    for block in text.split("\n#### ").map(|b| b.trim_start_matches("#### ")) {
        let mut lines = block.lines();
        let name = match lines.next() {
            Some(n) => n.trim().to_string(),
            None => continue,
        };
        let body: Vec<&str> = lines.collect();
        let body = body.join("\n");
        let mut parts = body.split("\n##doc");
        let rule_text = parts.next().unwrap_or("");
        let rule: Yaml = match serde_yaml::from_str(rule_text) {
            Ok(r) => r,
            Err(_) => continue,
        };
        let mut docs = vec![];
        for d in parts {
            if let Ok(y) = serde_yaml::from_str::<Yaml>(d) {
                if y.is_mapping() {
                    docs.push(y);
                }
            }
        }
        if let Some(c) = case_of_rule_value(&rule, docs, (0..16).collect()) {
            out.push((name, c));
        }
    }
    out
}

pub fn case_of_rule_value(rule: &Yaml, docs: Vec<Yaml>, masks: Vec<u64>) -> Option<CaseReq> {
    let m = rule.as_mapping()?;
    let det_m = m.get(Yaml::String("detection".into()))?.as_mapping()?;
    let mut det = vec![];
    for (k, v) in det_m {
        det.push((k.as_str()?.to_string(), v.clone()));
    }
    let seq = |k: &str| -> Vec<Yaml> {
        m.get(Yaml::String(k.into())).and_then(|v| v.as_sequence()).cloned().unwrap_or_default()
    };
    Some(CaseReq {
        optimised: false,
        det,
        tps: seq("true_positives"),
        tns: seq("true_negatives"),
        docs,
        masks,
    })
}

/// Witnesses checked on the implementation only.
pub fn implonly_cases() -> Vec<(String, CaseReq)> {
    let mut out = vec![];
    let mut files: Vec<String> = vec![];
    if let Ok(rd) = std::fs::read_dir("/verif/corpus/implonly") {
        for e in rd.flatten() {
            let p = e.path().to_string_lossy().to_string();
            if p.ends_with(".txt") {
                files.push(p);
            }
        }
    }
    files.sort();
    for f in files {
        out.extend(load_corpus_file(&f));
    }
    out
}

pub fn corpus_cases() -> Vec<(String, CaseReq)> {
    let mut out = vec![];
    let dir = "/verif/corpus";
    let mut files: Vec<String> = vec![];
    for sub in ["seed", "regress"] {
        if let Ok(rd) = std::fs::read_dir(format!("{}/{}", dir, sub)) {
            for e in rd.flatten() {
                let p = e.path().to_string_lossy().to_string();
                if p.ends_with(".txt") {
                    files.push(p);
                }
            }
        }
    }
    files.sort();
    for f in files {
        out.extend(load_corpus_file(&f));
    }
    out
}

pub fn verdicts(m: &MaskOut) -> Vec<bool> {
    m.res.iter().map(|(t, _)| t == "T").collect()
}

/// Emit the exploration part of the evidence as JSON.
pub fn evidence_json(ctx: &Ctx, wall_s: f64, rule: &str, extra: serde_json::Value) -> serde_json::Value {
    json!({
        "property_id": ctx.prop,
        "tier": ctx.tier,
        "seed": ctx.seed,
        "coverage": {
            "evaluations": ctx.evaluations,
            "distinct_nontrivial": ctx.nontrivial.len(),
            "distinct": ctx.distinct.len(),
            "rule": rule,
            "samples": ctx.samples,
            "traces_validated_against_impl": ctx.traces_validated,
            "model_unsupported_skipped": ctx.model_unsupported,
            "exhaustive": ctx.exhaustive,
            "distribution": ctx.stats,
            "known_findings_hit": ctx.known_hits,
            "extra": extra,
        },
        "wall_s": wall_s,
        "violations": ctx.violations.len(),
    })
}
