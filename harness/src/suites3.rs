//! Round-13 blocks: shapes that need two cooperating sites to go wrong (a solver shortcut that
//! trusts the parser's needle order next to a pass that does not keep it; a matrix builder next to
//! the cache that decodes its keys; a merge in shake next to the solver's special cases). Every
//! block is free of negations and of quantifiers over reshaped groups, so none of the recorded
//! findings can show in it: the oracle is strict (every mask gives the unoptimised verdict, the
//! unoptimised verdict is the one computed here from the rule text).

use serde_yaml::{Mapping, Value as Yaml};

use crate::check::*;
use crate::gen::ys;
use crate::implside::CaseReq;
use crate::props::run_rule_case;
use crate::suites::pattern_rel;

fn map1(k: &str, v: Yaml) -> Yaml {
    let mut m = Mapping::new();
    m.insert(ys(k), v);
    Yaml::Mapping(m)
}

fn mapn(kvs: Vec<(&str, Yaml)>) -> Yaml {
    let mut m = Mapping::new();
    for (k, v) in kvs {
        m.insert(ys(k), v);
    }
    Yaml::Mapping(m)
}

fn num(n: i64) -> Yaml {
    Yaml::Number(n.into())
}

fn y(text: &str) -> Yaml {
    serde_yaml::from_str(text).expect("yaml literal")
}

fn case(det: Vec<(String, Yaml)>, docs: Vec<Yaml>, masks: Vec<u64>) -> CaseReq {
    CaseReq { optimised: false, det, tps: vec![], tns: vec![], docs, masks }
}

/// Runs the case on both sides and applies the strict oracle. `want`: the verdict per document
/// the rule text dictates (None: only "every mask equals the unoptimised verdict").
fn strict(ctx: &mut Ctx, c: &CaseReq, want: Option<&[bool]>, tag: &str) -> Option<Vec<bool>> {
    let (ex, parsed) = run_rule_case(ctx, c, false);
    let ry = rule_yaml(c);
    if ex.imp.contains("PANIC") {
        ctx.violation("oracle", &format!("{}: load / optimise / match panicked: {}", tag, trunc(&ex.imp, 300)), &ex, &ry, true);
        return None;
    }
    let p = match parsed {
        Some(p) if p.load == "ok" => p,
        _ => return None,
    };
    ctx.nontrivial.insert(hash_str(&ex.line));
    let base = verdicts(&p.masks[0]);
    if let Some(w) = want {
        if w != base.as_slice() {
            let j = (0..w.len()).find(|j| w[*j] != base[*j]).unwrap_or(0);
            ctx.violation("oracle", &format!("{}: document #{} {}: the unoptimised rule gives {}, the rule text means {}", tag, j, trunc(&serde_yaml::to_string(&c.docs[j]).unwrap_or_default().replace('\n', " "), 120), base[j], w[j]), &ex, &ry, true);
            return Some(base);
        }
    }
    for m in &p.masks {
        let v = verdicts(m);
        if v != base {
            let j = (0..v.len()).find(|j| v[*j] != base[*j]).unwrap_or(0);
            ctx.violation("oracle", &format!("{}: switches {}: document #{} {} gives {} optimised and {} unoptimised", tag, m.mask, j, trunc(&serde_yaml::to_string(&c.docs[j]).unwrap_or_default().replace('\n', " "), 120), v[j], base[j]), &ex, &ry, true);
            break;
        }
    }
    Some(base)
}

/// Three string predicates on ONE field, of every kind and case flag, in every order, combined by
/// `or` — as three identifiers in the condition, as a sequence of one-entry mappings, and with a
/// two-member list in front. shake merges them into one automaton in WRITTEN order (the parser
/// sorts by kind, the optimiser does not), so every solver shortcut that trusts a position in the
/// needle vector shows here. The verdict is the `or` of the documented relations.
pub fn same_field_triples(ctx: &mut Ctx, tag: &str, thin: usize) {
    let pool = ["*ab*", "ab*", "*ab", "ab", "*a", "b*", "*q*", "*z*", "iab*", "i*AB", "i*q*", "iab", "?^a.$"];
    let hays = ["ab", "b", "xab", "abx", "xabx", "AB", "xAB", "ABx", "a", "ba", "", "q", "abab", "aab"];
    let docs: Vec<Yaml> = hays.iter().map(|h| map1("f", ys(h))).collect();
    let masks = vec![0u64, 3, 15, 2, 7];
    let mut n = 0usize;
    for (i, a) in pool.iter().enumerate() {
        for (j, b) in pool.iter().enumerate() {
            for (k, c3) in pool.iter().enumerate() {
                if i == j || j == k || i == k {
                    continue;
                }
                n += 1;
                if thin > 1 && (n + ctx.seed as usize) % thin != 0 {
                    continue;
                }
                let pats = [*a, *b, *c3];
                let want: Vec<bool> = hays.iter().map(|h| pats.iter().any(|p| pattern_rel(p, h).unwrap_or(false))).collect();
                let ids: Vec<(String, Yaml)> = pats.iter().enumerate().map(|(x, p)| (format!("P{}", x), map1("f", ys(p)))).collect();
                let mut det = ids.clone();
                det.push(("condition".into(), ys("P0 or P1 or P2")));
                strict(ctx, &case(det, docs.clone(), masks.clone()), Some(&want), &format!("{}: `P0 or P1 or P2` over one field, patterns {:?}", tag, pats));
                let seq = Yaml::Sequence(pats.iter().map(|p| map1("f", ys(p))).collect());
                strict(ctx, &case(vec![("X".into(), seq), ("condition".into(), ys("X"))], docs.clone(), masks.clone()), Some(&want), &format!("{}: sequence of one-entry mappings over one field, patterns {:?}", tag, pats));
                if n % 7 == 0 {
                    // a two-member list in front, then two single members
                    let mut det2 = vec![
                        ("P0".to_string(), map1("f", Yaml::Sequence(vec![ys(a), ys(b)]))),
                        ("P1".to_string(), map1("f", ys(c3))),
                        ("P2".to_string(), map1("f", ys(a))),
                    ];
                    det2.push(("condition".into(), ys("P1 or P0 or P2")));
                    strict(ctx, &case(det2, docs.clone(), masks.clone()), Some(&want), &format!("{}: list + singles over one field, patterns {:?}", tag, pats));
                }
            }
        }
    }
}

/// Comparisons of two casts (`int(a) > int(b)`) as operands of an or-chain of three or more whose
/// operands share their left field — what the matrix pass tabulates. The verdict is computed here
/// from the integers.
pub fn cast_cast_or_chains(ctx: &mut Ctx, tag: &str) {
    let conds: Vec<(&str, Box<dyn Fn(Option<i64>, Option<i64>) -> bool>)> = vec![
        ("int(a) > int(b) or int(a) == 7 or int(a) < 0", Box::new(|a, b| matches!((a, b), (Some(a), Some(b)) if a > b) || a == Some(7) || matches!(a, Some(a) if a < 0))),
        ("int(a) == 7 or int(a) > int(b) or int(a) < 0", Box::new(|a, b| matches!((a, b), (Some(a), Some(b)) if a > b) || a == Some(7) || matches!(a, Some(a) if a < 0))),
        ("int(a) == 7 or int(a) < 0 or int(a) <= int(b)", Box::new(|a, b| matches!((a, b), (Some(a), Some(b)) if a <= b) || a == Some(7) || matches!(a, Some(a) if a < 0))),
        ("int(a) == int(b) or int(a) == 7 or int(a) == 8 or int(b) == 1", Box::new(|a, b| (a.is_some() && a == b) || a == Some(7) || a == Some(8) || b == Some(1))),
        ("int(a) >= int(b) or int(a) > int(c) or int(a) == 3", Box::new(|a, b| matches!((a, b), (Some(a), Some(b)) if a >= b) || a == Some(3))),
        ("X or int(a) > int(b) or int(a) == 7", Box::new(|a, b| matches!((a, b), (Some(a), Some(b)) if a > b) || a == Some(7))),
        ("(int(a) > int(b) or int(a) == 7) or int(a) < 0", Box::new(|a, b| matches!((a, b), (Some(a), Some(b)) if a > b) || a == Some(7) || matches!(a, Some(a) if a < 0))),
    ];
    let vals: [Option<i64>; 6] = [None, Some(-1), Some(0), Some(3), Some(7), Some(9)];
    let mut docs = vec![];
    let mut ab = vec![];
    for a in vals {
        for b in vals {
            let mut m = Mapping::new();
            if let Some(a) = a { m.insert(ys("a"), num(a)); }
            if let Some(b) = b { m.insert(ys("b"), num(b)); }
            docs.push(Yaml::Mapping(m));
            ab.push((a, b));
        }
    }
    for (cond, f) in conds {
        let want: Vec<bool> = ab.iter().map(|(a, b)| f(*a, *b)).collect();
        let det = vec![("X".to_string(), map1("zz", ys("never"))), ("condition".to_string(), ys(cond))];
        strict(ctx, &case(det, docs.clone(), (0..16).collect()), Some(&want), &format!("{}: condition `{}`", tag, cond));
    }
}

/// `A and B and C` where two operands are nested blocks over ONE field that holds an array of
/// objects and one of them has several keys: a block is satisfied by ONE element that satisfies
/// all its keys; different blocks may be satisfied by different elements.
pub fn and_blocks_over_arrays(ctx: &mut Ctx, tag: &str) {
    let elems: Vec<(&str, [Option<&str>; 3])> = vec![
        ("{}", [None, None, None]),
        ("{x: a}", [Some("a"), None, None]),
        ("{y: b}", [None, Some("b"), None]),
        ("{z: c}", [None, None, Some("c")]),
        ("{x: a, y: b}", [Some("a"), Some("b"), None]),
        ("{y: b, z: c}", [None, Some("b"), Some("c")]),
        ("{x: a, y: q, z: c}", [Some("a"), Some("q"), Some("c")]),
        ("{x: a, y: b, z: c}", [Some("a"), Some("b"), Some("c")]),
    ];
    let mut docs = vec![];
    let mut shapes: Vec<Vec<[Option<&str>; 3]>> = vec![];
    for (i, (e1, s1)) in elems.iter().enumerate() {
        for (j, (e2, s2)) in elems.iter().enumerate() {
            if j < i {
                continue;
            }
            docs.push(y(&format!("{{k: v, n: [{}, {}]}}", e1, e2)));
            shapes.push(vec![*s1, *s2]);
        }
        docs.push(y(&format!("{{k: v, n: {}}}", e1)));
        shapes.push(vec![*s1]);
    }
    let block_true = |keys: &[usize], vals: &[&str], els: &Vec<[Option<&str>; 3]>| -> bool { els.iter().any(|e| keys.iter().zip(vals.iter()).all(|(k, v)| e[*k] == Some(*v))) };
    let forms: Vec<(&str, Vec<(String, Yaml)>, Box<dyn Fn(&Vec<[Option<&str>; 3]>) -> bool>)> = vec![
        ("A: n:{x,y}  B: n:{z}  C: k", vec![("A".into(), y("{n: {x: a, y: b}}")), ("B".into(), y("{n: {z: c}}")), ("C".into(), y("{k: v}"))],
            Box::new(move |els| block_true(&[0, 1], &["a", "b"], els) && block_true(&[2], &["c"], els))),
        ("A: n:{z}  B: n:{x,y}  C: k", vec![("A".into(), y("{n: {z: c}}")), ("B".into(), y("{n: {x: a, y: b}}")), ("C".into(), y("{k: v}"))],
            Box::new(move |els| block_true(&[0, 1], &["a", "b"], els) && block_true(&[2], &["c"], els))),
        ("A: n:{x,y}  B: n:{y,z}  C: k", vec![("A".into(), y("{n: {x: a, y: b}}")), ("B".into(), y("{n: {y: b, z: c}}")), ("C".into(), y("{k: v}"))],
            Box::new(move |els| block_true(&[0, 1], &["a", "b"], els) && block_true(&[1, 2], &["b", "c"], els))),
        ("A: {k, n:{x,y}}  B: n:{z}  C: n:{x}", vec![("A".into(), y("{k: v, n: {x: a, y: b}}")), ("B".into(), y("{n: {z: c}}")), ("C".into(), y("{n: {x: a}}"))],
            Box::new(move |els| block_true(&[0, 1], &["a", "b"], els) && block_true(&[2], &["c"], els) && block_true(&[0], &["a"], els))),
    ];
    for (name, ids, f) in forms {
        let want: Vec<bool> = shapes.iter().map(|s| f(s)).collect();
        for cond in ["A and B and C", "C and A and B", "B and C and A", "(A and B) and C"] {
            let mut det = ids.clone();
            det.push(("condition".into(), ys(cond)));
            strict(ctx, &case(det, docs.clone(), (0..16).collect()), Some(&want), &format!("{}: `{}` with {}", tag, cond, name));
        }
    }
}

/// A batched `all(k)` inside a nested mapping next to a second block on the same field, and-ed in
/// one conjunction: `all(k)` still needs EVERY member.
pub fn nested_all_with_sibling(ctx: &mut Ctx, tag: &str) {
    let lists: Vec<(&str, Vec<&str>)> = vec![
        ("['*a*', '*b*']", vec!["*a*", "*b*"]),
        ("['a*', '*b', '*c*']", vec!["a*", "*b", "*c*"]),
        ("['i*A*', 'i*B*']", vec!["i*A*", "i*B*"]),
        ("['?a', '?b']", vec!["?a", "?b"]),
    ];
    let kvals = ["ab", "a", "b", "acb", "xx", "ba", "AB"];
    for (lit, pats) in lists {
        for sibling in ["{f: {j: y}}", "{f: {j: y, m: 1}}", "{g: x, f: {j: y}}"] {
            for first in [format!("{{f: {{all(k): {}}}, g: x}}", lit), format!("{{g: x, f: {{all(k): {}}}}}", lit), format!("{{f: {{all(k): {}}}}}", lit)] {
                let mut docs = vec![];
                let mut want = vec![];
                for kv in kvals {
                    for j in ["y", "n"] {
                        docs.push(y(&format!("{{f: {{k: '{}', j: {}, m: 1}}, g: x}}", kv, j)));
                        want.push(j == "y" && pats.iter().all(|p| pattern_rel(p, kv).unwrap_or(false)));
                    }
                }
                for cond in ["A and B", "B and A", "A and B and C", "C and B and A"] {
                    let det = vec![("A".to_string(), y(&first)), ("B".to_string(), y(sibling)), ("C".to_string(), y("{g: x}")), ("condition".to_string(), ys(cond))];
                    strict(ctx, &case(det, docs.clone(), vec![0, 3, 15, 2, 7, 1]), Some(&want), &format!("{}: `{}` with A = {} and B = {}", tag, cond, first, sibling));
                }
            }
        }
    }
}

/// An or-group over several hundred distinct fields with numeric predicates (the matrix pass keys
/// each column by a synthetic character): every predicate keeps reading ITS field, also beyond
/// the 128th and the 256th column.
pub fn wide_numeric_matrix(ctx: &mut Ctx, tag: &str) {
    for width in [130usize, 300] {
        let ops = ["=5", ">5", "<5", ">=5", "<=5"];
        let mut rows = vec![];
        for i in 0..width {
            rows.push(map1(&format!("f{:03}", i), ys(ops[i % ops.len()])));
        }
        // one field used three times, so that the group qualifies for a matrix
        rows.push(map1("f001", ys("=77")));
        rows.push(map1("f001", ys("=78")));
        let holds = |i: usize, v: i64| -> bool { match i % 5 { 0 => v == 5, 1 => v > 5, 2 => v < 5, 3 => v >= 5, _ => v <= 5 } };
        let mut docs = vec![];
        let mut want = vec![];
        let probes: Vec<usize> = vec![0, 1, 2, 3, 4, 126, 127, 128, 129, 254, 255, 256, 257, 258, 280, 299].into_iter().filter(|i| *i < width).collect();
        for &i in &probes {
            for v in [4i64, 5, 6] {
                docs.push(map1(&format!("f{:03}", i), num(v)));
                want.push(holds(i, v) || (i == 1 && (v == 77 || v == 78)));
                // the value under test in a late column, a value that would satisfy ANOTHER column's
                // predicate in an early one
                let other = (i + 1) % 5;
                let _ = other;
            }
        }
        // two fields at once: neither relation holds, although each value would satisfy the OTHER field's predicate
        for &(i, vi, j, vj) in &[(0usize, 9i64, 256usize, 1i64), (1, 1, 257, 9), (2, 9, 258, 1), (5, 9, 261, 1), (6, 1, 262, 9)] {
            if i < width && j < width {
                let mut m = Mapping::new();
                m.insert(ys(&format!("f{:03}", i)), num(vi));
                m.insert(ys(&format!("f{:03}", j)), num(vj));
                docs.push(Yaml::Mapping(m));
                want.push(holds(i, vi) || holds(j, vj));
            }
        }
        let det = vec![("X".to_string(), Yaml::Sequence(rows)), ("condition".to_string(), ys("X"))];
        strict(ctx, &case(det, docs, vec![0, 8, 15, 10]), Some(&want), &format!("{}: or-group over {} numeric fields", tag, width));
    }
}

/// Alternatives of a disjunction in which one conjunction names ONE field twice (`a` and `int(a)`,
/// `a` and `str(a)`) and no other alternative uses that field: the field is counted as a column and
/// never gets a cell. Every other column keeps its own field.
pub fn rows_field_twice(ctx: &mut Ctx, tag: &str) {
    let twice = [("{%: '>1', int(%): '<5'}", "int"), ("{%: 'x*', str(%): '*y'}", "str"), ("{int(%): '<5', %: '>1'}", "int")];
    let vals: [Option<i64>; 5] = [None, Some(0), Some(5), Some(7), Some(1)];
    for (tw, kind) in twice {
        for name in ["a", "zz"] {
            let first = tw.replace('%', name);
            let alts = [first.as_str(), "{c: 7}", "{b: 5}", "{b: 6}", "{c: 8}", "{d: 1}", "{d: 2}"];
            for rot in 0..alts.len() {
                let rows: Vec<Yaml> = (0..alts.len()).map(|i| y(alts[(i + rot) % alts.len()])).collect();
                let mut docs = vec![];
                let mut want = vec![];
                for b in vals {
                    for c in vals {
                        for d in [None, Some(0i64), Some(1)] {
                            for a in [None, Some(3i64)] {
                                let mut m = Mapping::new();
                                if let Some(v) = b { m.insert(ys("b"), num(v)); }
                                if let Some(v) = c { m.insert(ys("c"), num(v)); }
                                if let Some(v) = d { m.insert(ys("d"), num(v)); }
                                if let Some(v) = a { m.insert(ys(name), num(v)); }
                                docs.push(Yaml::Mapping(m));
                                let first_holds = kind == "int" && a == Some(3);
                                want.push(first_holds || c == Some(7) || b == Some(5) || d == Some(1));
                            }
                        }
                    }
                }
                let det = vec![("X".to_string(), Yaml::Sequence(rows)), ("condition".to_string(), ys("X"))];
                strict(ctx, &case(det, docs, vec![0, 8, 15, 10, 9]), Some(&want), &format!("{}: alternatives with {} (rotation {})", tag, first, rot));
            }
        }
    }
}

/// Lists with a null member over a field (or a path) the document does not have: absent is not null.
pub fn null_members_missing_path(ctx: &mut Ctx, tag: &str) {
    let rules: Vec<(&str, &str)> = vec![
        ("{k: [1, null]}", "A"), ("{k: [null, 1]}", "A"), ("{k: [1, 2, null]}", "A"), ("{a.b: [7, null]}", "A"), ("{a.b: [null, 7]}", "A"),
        ("{k: [1, ~], j: x}", "A"), ("[{k: 1}, {k: null}]", "A"), ("[{k: 1, j: x}, {k: null, j: x}, {j: y}]", "A"), ("[{k: 1}, {j: x}, {k: null}]", "A"),
        ("{k: [true, null]}", "A"), ("{k: [1, 2]}", "A or B"), ("{k: [1, null]}", "A or B"),
    ];
    let docs: Vec<Yaml> = ["{other: 1}", "{k: null}", "{k: 1}", "{k: 2}", "{a: {c: 7}}", "{a: {b: null}}", "{a: {b: 7}}", "{a: 7}", "{j: x}", "{j: x, k: null}", "{j: y}", "{}", "{k: 0}", "{k: ''}", "{k: true}"].iter().map(|d| y(d)).collect();
    for (body, cond) in rules {
        let det = vec![("A".to_string(), y(body)), ("B".to_string(), y("{other: 2}")), ("condition".to_string(), ys(cond))];
        strict(ctx, &case(det, docs.clone(), (0..16).collect()), None, &format!("{}: {} with condition {}", tag, body, cond));
    }
}

/// Identifiers with many leaves mentioned more than once in the condition (what a size-limited
/// inliner would keep as references): every mask evaluates, and to the unoptimised verdict.
pub fn big_identifiers_twice(ctx: &mut Ctx, tag: &str) {
    for leaves in [1usize, 4, 8, 15, 16, 17, 18, 31, 32, 33, 64, 65, 100] {
        let mut m = Mapping::new();
        for i in 0..leaves {
            m.insert(ys(&format!("k{}", i)), ys(&format!("v{}", i)));
        }
        let base = Yaml::Mapping(m.clone());
        let mut full = m.clone();
        full.insert(ys("office"), ys("yes"));
        let mut full2 = m.clone();
        full2.insert(ys("script"), ys("yes"));
        let mut broken = full.clone();
        broken.insert(ys("k0"), ys("other"));
        let docs = vec![Yaml::Mapping(full), Yaml::Mapping(full2), Yaml::Mapping(broken), Yaml::Mapping(m.clone()), y("{office: yes}")];
        let want = vec![true, true, false, false, false];
        for cond in ["(base and office) or (base and script)", "(office and base) or (script and base)", "base and (office or script) and base"] {
            let det = vec![("base".to_string(), base.clone()), ("office".to_string(), y("{office: yes}")), ("script".to_string(), y("{script: yes}")), ("condition".to_string(), ys(cond))];
            strict(ctx, &case(det, docs.clone(), (0..16).collect()), Some(&want), &format!("{}: identifier with {} entries mentioned twice in `{}`", tag, leaves, cond));
        }
        // as a list of one-entry mappings under a disjunction
        let seq = Yaml::Sequence((0..leaves).map(|i| map1(&format!("k{}", i), ys(&format!("v{}", i)))).collect());
        let det = vec![("any".to_string(), seq), ("office".to_string(), y("{office: yes}")), ("script".to_string(), y("{script: yes}")), ("condition".to_string(), ys("(any and office) or (any and script)"))];
        strict(ctx, &case(det, docs.clone(), (0..16).collect()), Some(&[true, true, leaves > 1, false, false]), &format!("{}: list identifier with {} entries mentioned twice", tag, leaves));
    }
}

/// Three alternatives of a disjunction in every order, one of which holds an ordinary entry
/// followed by an entry the matrix pass cannot tabulate (a list mixing plain and case-insensitive
/// patterns, `not(k)`, `all(k)`, a field read plain and through `str()`): the alternatives keep
/// their own entries, whichever is written first.
pub fn rows_with_untabulated_entry(ctx: &mut Ctx, tag: &str) {
    let odd = ["{f: x, g: ['a', 'i*b']}", "{f: x, not(g): q}", "{f: x, all(g): ['*a*', '*b*']}", "{f: x, g: a, str(g): '*a'}", "{f: x, g: ['?^a', 'b']}"];
    let docs: Vec<Yaml> = ["{h: y, j: z}", "{h: y, j: z, f: w}", "{h: y, j: z, f: x}", "{f: q}", "{f: x, g: a}", "{f: x, g: ab}", "{f: w, g: a, h: y}", "{h: y}", "{f: x}", "{g: a}"].iter().map(|d| y(d)).collect();
    for o in odd {
        let alts = [o, "{h: y, j: z}", "{f: q}"];
        let mut first: Option<Vec<bool>> = None;
        for perm in [[0usize, 1, 2], [0, 2, 1], [1, 0, 2], [1, 2, 0], [2, 0, 1], [2, 1, 0]] {
            let rows: Vec<Yaml> = perm.iter().map(|i| y(alts[*i])).collect();
            let det = vec![("X".to_string(), Yaml::Sequence(rows)), ("condition".to_string(), ys("X"))];
            let got = strict(ctx, &case(det.clone(), docs.clone(), (0..16).collect()), None, &format!("{}: alternatives {:?} in order {:?}", tag, alts, perm));
            if let (Some(f), Some(g)) = (&first, &got) {
                if f != g {
                    let c = case(det, docs.clone(), vec![0]);
                    let ex = Exchange { line: crate::case::case_line(false, &c), imp: String::new(), model: String::new(), agree: true, supported: false };
                    ctx.violation("oracle", &format!("{}: alternatives {:?}: order {:?} gives {:?}, the written order gives {:?}", tag, alts, perm, g, f), &ex, &rule_yaml(&c), true);
                }
            } else if first.is_none() {
                first = got;
            }
        }
    }
}

/// Needle sets around the size where the per-needle counter changes its data structure (64):
/// a quantified key list and an identifier that is a sequence of one-needle mappings on one field
/// (what shake merges into one automaton), against values in which a needle occurs twice with
/// another needle's hit in between, back to back, and not at all. Members are counted once.
pub fn big_needle_sets(ctx: &mut Ctx, tag: &str) {
    for n in [62usize, 63, 64, 65, 70] {
        let needle = |i: usize| format!("<k{:02}>", i);
        let pats: Vec<String> = (0..n).map(|i| format!("*{}*", needle(i))).collect();
        let all_but = |skip: usize, twice: usize| -> String {
            let mut s = String::new();
            for i in 0..n {
                if i != skip { s.push_str(&needle(i)); s.push(' '); }
                if i == twice || i == twice + 1 { s.push_str(&needle(twice)); s.push(' '); }
            }
            s
        };
        let texts: Vec<(String, usize)> = vec![
            (format!("run {} then {} then {} again", needle(0), needle(1), needle(0)), 2),
            (format!("{}{}{}", needle(0), needle(0), needle(1)), 2),
            (format!("{} {} {} {} {}", needle(5), needle(n - 1), needle(5), needle(n - 1), needle(5)), 2),
            (format!("{} {} {}", needle(3), needle(4), needle(n - 1)), 3),
            (all_but(n + 1, 7), n),
            (all_but(9, 7), n - 1),
            (all_but(n - 1, 0), n - 1),
            ("nothing here".to_string(), 0),
        ];
        let docs: Vec<Yaml> = texts.iter().map(|(t, _)| map1("cmd", ys(t))).collect();
        let masks = vec![0u64, 2, 3, 15, 6];
        for (cond_key, k) in [("all", n), ("of3", 3usize), ("of2", 2), ("ofn", n)] {
            let want: Vec<bool> = texts.iter().map(|(_, c)| *c >= k).collect();
            let key = match cond_key { "all" => "all(cmd)".to_string(), "of3" => "of(cmd, 3)".to_string(), "of2" => "of(cmd, 2)".to_string(), _ => format!("of(cmd, {})", n) };
            let det = vec![("A".to_string(), map1(&key, Yaml::Sequence(pats.iter().map(|p| ys(p)).collect()))), ("condition".to_string(), ys("A"))];
            strict(ctx, &case(det, docs.clone(), masks.clone()), Some(&want), &format!("{}: {} over a list of {} needles", tag, key, n));
            let cond = match cond_key { "all" => "all(A)".to_string(), "of3" => "of(A, 3)".to_string(), "of2" => "of(A, 2)".to_string(), _ => format!("of(A, {})", n) };
            let seq = Yaml::Sequence(pats.iter().map(|p| map1("cmd", ys(p))).collect());
            let det = vec![("A".to_string(), seq), ("condition".to_string(), ys(&cond))];
            strict(ctx, &case(det, docs.clone(), masks.clone()), Some(&want), &format!("{}: {} over a sequence of {} one-needle mappings", tag, cond, n));
        }
    }
}

/// `of(k, 2)` / `of(k, 3)` / `all(k)` over lists of 40 to 130 members, in several rotations and with
/// two members swapped, against values that hold exactly the members at two or three written
/// positions (1, 32, 33, 64, 65 … apart): the count — hence the verdict — does not depend on where
/// in the list the matching members stand.
pub fn long_list_rotations(ctx: &mut Ctx, tag: &str) {
    for n in [40usize, 64, 70, 130] {
        let needle = |i: usize| format!("<k{:03}>", i);
        let base: Vec<usize> = (0..n).collect();
        let gaps = [1usize, 16, 31, 32, 33, 63, 64, 65];
        let mut picks: Vec<Vec<usize>> = vec![];
        for g in gaps {
            if 3 + g < n { picks.push(vec![3, 3 + g]); }
            if 3 + 2 * g < n { picks.push(vec![3, 3 + g, 3 + 2 * g]); }
        }
        let docs: Vec<Yaml> = picks.iter().map(|p| map1("name", ys(&p.iter().map(|i| needle(*i)).collect::<Vec<_>>().join(" ")))).collect();
        for (key, k) in [("of(name, 2)", 2usize), ("of(name, 3)", 3)] {
            let want: Vec<bool> = picks.iter().map(|p| p.len() >= k).collect();
            let mut orders: Vec<Vec<usize>> = vec![base.clone()];
            for rot in [1usize, 7, 31, 32, 33] {
                if rot < n { let mut o = base.clone(); o.rotate_left(rot); orders.push(o); }
            }
            let mut sw = base.clone(); sw.swap(4, (35).min(n - 1)); orders.push(sw);
            let mut rev = base.clone(); rev.reverse(); orders.push(rev);
            for o in orders {
                let list = Yaml::Sequence(o.iter().map(|i| ys(&format!("*{}*", needle(*i)))).collect());
                let det = vec![("A".to_string(), map1(key, list)), ("condition".to_string(), ys("A"))];
                strict(ctx, &case(det, docs.clone(), vec![0, 15]), Some(&want), &format!("{}: {} over {} members starting with member {}", tag, key, n, o[0]));
            }
        }
    }
}
