//! Exhaustive small-scope suites and property-specific oracles (C05–C10, C17).

use serde_json::json;
use serde_yaml::{Mapping, Value as Yaml};

use crate::check::*;
use crate::gen::{self, ys, Cond, Rng};
use crate::implside::CaseReq;
use crate::known::Known;
use crate::props::{budget, run_rule_case};
use crate::sx;

fn map1(k: &str, v: Yaml) -> Yaml {
    let mut m = Mapping::new();
    m.insert(ys(k), v);
    Yaml::Mapping(m)
}

fn mapn(kvs: Vec<(String, Yaml)>) -> Yaml {
    let mut m = Mapping::new();
    for (k, v) in kvs {
        m.insert(ys(&k), v);
    }
    Yaml::Mapping(m)
}

fn case(det: Vec<(String, Yaml)>, docs: Vec<Yaml>, masks: Vec<u64>) -> CaseReq {
    CaseReq { optimised: false, det, tps: vec![], tns: vec![], docs, masks }
}

fn tri_of(p: &Parsed, mask: u64) -> Vec<String> {
    p.masks.iter().find(|m| m.mask == mask).map(|m| m.res.iter().map(|(t, _)| t.clone()).collect()).unwrap_or_default()
}

// ------------------------------------------------------------------------------------ tables

#[derive(Clone, Copy, PartialEq, Debug)]
pub enum Tri {
    T,
    F,
    M,
}

impl Tri {
    pub fn name(self) -> &'static str {
        match self {
            Tri::T => "T",
            Tri::F => "F",
            Tri::M => "M",
        }
    }
}

pub fn t_or(xs: &[Tri]) -> Tri {
    if xs.contains(&Tri::T) {
        Tri::T
    } else if xs.contains(&Tri::F) {
        Tri::F
    } else {
        Tri::M
    }
}
pub fn t_and(xs: &[Tri]) -> Tri {
    for x in xs {
        if *x != Tri::T {
            return *x;
        }
    }
    Tri::T
}
pub fn t_not(x: Tri) -> Tri {
    match x {
        Tri::T => Tri::F,
        Tri::F => Tri::T,
        Tri::M => Tri::F,
    }
}
pub fn t_of(n: usize, xs: &[Tri]) -> Tri {
    let cnt = xs.iter().filter(|x| **x == Tri::T).count();
    if n == 0 {
        if cnt > 0 {
            Tri::F
        } else if xs.contains(&Tri::F) {
            Tri::T
        } else {
            Tri::M
        }
    } else if cnt >= n {
        Tri::T
    } else if xs.contains(&Tri::F) {
        Tri::F
    } else {
        Tri::M
    }
}

fn vectors(k: usize) -> Vec<Vec<Tri>> {
    let mut out = vec![vec![]];
    for _ in 0..k {
        let mut next = vec![];
        for v in &out {
            for t in [Tri::T, Tri::F, Tri::M] {
                let mut w = v.clone();
                w.push(t);
                next.push(w);
            }
        }
        out = next;
    }
    out
}

/// Document realising an operand-result vector: operand i is the predicate `f<i>: x`.
fn doc_for(v: &[Tri]) -> Yaml {
    let mut m = Mapping::new();
    for (i, t) in v.iter().enumerate() {
        match t {
            Tri::T => {
                m.insert(ys(&format!("f{}", i)), ys("x"));
            }
            Tri::F => {
                m.insert(ys(&format!("f{}", i)), ys("y"));
            }
            Tri::M => {}
        }
    }
    Yaml::Mapping(m)
}

/// Same, with the operands living inside one object field `o` (for all/of over a key list whose
/// members are nested mappings).
fn nested_doc_for(v: &[Tri]) -> Yaml {
    map1("o", doc_for(v))
}

pub fn run_c06(ctx: &mut Ctx, _known: &Known) {
    ctx.exhaustive = true;
    crate::suites3::same_field_triples(ctx, "C06", if ctx.tier == "thorough" { 1 } else { 3 });
    crate::suites3::and_blocks_over_arrays(ctx, "C06");
    c06_same_field(ctx);
    c06_rows_same_field(ctx);
    c06_key_quantifiers(ctx);
    c06_same_field_arrays(ctx);
    c06_mixed_groups(ctx);
    let masks = vec![0u64, 15];
    for k in 1..=4usize {
        let vs = vectors(k);
        let docs: Vec<Yaml> = vs.iter().map(|v| doc_for(v)).collect();
        let ids: Vec<(String, Yaml)> = (0..k).map(|i| (format!("P{}", i), map1(&format!("f{}", i), ys("x")))).collect();
        let names: Vec<String> = ids.iter().map(|(n, _)| n.clone()).collect();
        // (a) binary chains in the condition
        let mut forms: Vec<(String, Vec<(String, Yaml)>, Box<dyn Fn(&[Tri]) -> Tri>, bool)> = vec![];
        if k >= 2 {
            forms.push((format!("binary and x{}", k), with_cond(&ids, &names.join(" and ")), Box::new(|v| t_and(v)), false));
            forms.push((format!("binary or x{}", k), with_cond(&ids, &names.join(" or ")), Box::new(|v| t_or(v)), false));
        } else {
            forms.push(("not".into(), with_cond(&ids, "not P0"), Box::new(|v| t_not(v[0])), false));
            forms.push(("not not".into(), with_cond(&ids, "not (not P0)"), Box::new(|v| t_not(t_not(v[0]))), false));
        }
        // (b) grouped forms: a mapping with k entries (and), a sequence of k mappings (or)
        let entries: Vec<(String, Yaml)> = (0..k).map(|i| (format!("f{}", i), ys("x"))).collect();
        forms.push((format!("mapping x{}", k), vec![("G".into(), mapn(entries.clone())), ("condition".into(), ys("G"))], Box::new(|v| t_and(v)), false));
        let seq = Yaml::Sequence((0..k).map(|i| map1(&format!("f{}", i), ys("x"))).collect());
        forms.push((format!("sequence x{}", k), vec![("G".into(), seq.clone()), ("condition".into(), ys("G"))], Box::new(|v| t_or(v)), false));
        forms.push((format!("not sequence x{}", k), vec![("G".into(), seq.clone()), ("condition".into(), ys("not G"))], Box::new(|v| t_not(t_or(v))), false));
        forms.push((format!("not mapping x{}", k), vec![("G".into(), mapn(entries.clone())), ("condition".into(), ys("not G"))], Box::new(|v| t_not(t_and(v))), false));
        // (c) all/of over an identifier list
        forms.push((format!("all(ident) x{}", k), vec![("G".into(), seq.clone()), ("condition".into(), ys("all(G)"))], Box::new(|v| t_and(v)), false));
        for n in 0..=k + 1 {
            forms.push((format!("of(ident,{}) x{}", n, k), vec![("G".into(), seq.clone()), ("condition".into(), ys(&format!("of(G, {})", n)))], Box::new(move |v| t_of(n, v)), false));
            forms.push((format!("not of(ident,{}) x{}", n, k), vec![("G".into(), seq.clone()), ("condition".into(), ys(&format!("not of(G, {})", n)))], Box::new(move |v| t_not(t_of(n, v))), false));
        }
        // (c0) all()/of() over an identifier that is a MAPPING: its entries are the operands
        if k >= 2 {
            forms.push((format!("all(mapping ident) x{}", k), vec![("G".into(), mapn(entries.clone())), ("condition".into(), ys("all(G)"))], Box::new(|v| t_and(v)), false));
            for n in 0..=k + 1 {
                forms.push((format!("of(mapping ident,{}) x{}", n, k), vec![("G".into(), mapn(entries.clone())), ("condition".into(), ys(&format!("of(G, {})", n)))], Box::new(move |v| t_of(n, v)), false));
                forms.push((format!("not of(mapping ident,{}) x{}", n, k), vec![("G".into(), mapn(entries.clone())), ("condition".into(), ys(&format!("not of(G, {})", n)))], Box::new(move |v| t_not(t_of(n, v))), false));
            }
        }
        // (b') a mapping whose entries are of different kinds (regex, number, plain text), written
        //      most-expensive first: still the conjunction in WRITTEN order
        if k >= 2 {
            let kind_val = |i: usize| -> Yaml { match i % 3 { 0 => ys("?^x$"), 1 => Yaml::Number(7u64.into()), _ => ys("x") } };
            let mixed: Vec<(String, Yaml)> = (0..k).map(|i| (format!("f{}", i), kind_val(i))).collect();
            let mdocs: Vec<Yaml> = vs.iter().map(|v| {
                let mut m = Mapping::new();
                for (i, t) in v.iter().enumerate() {
                    let (tv, fv) = if i % 3 == 1 { (Yaml::Number(7u64.into()), Yaml::Number(3u64.into())) } else { (ys("x"), ys("y")) };
                    match t {
                        Tri::T => { m.insert(ys(&format!("f{}", i)), tv); }
                        Tri::F => { m.insert(ys(&format!("f{}", i)), fv); }
                        Tri::M => {}
                    }
                }
                Yaml::Mapping(m)
            }).collect();
            let mforms: Vec<(String, Vec<(String, Yaml)>, Box<dyn Fn(&[Tri]) -> Tri>)> = vec![
                (format!("mixed-kind mapping x{}", k), vec![("G".into(), mapn(mixed.clone())), ("condition".into(), ys("G"))], Box::new(|v| t_and(v))),
                (format!("not mixed-kind mapping x{}", k), vec![("G".into(), mapn(mixed.clone())), ("condition".into(), ys("not G"))], Box::new(|v| t_not(t_and(v)))),
                (format!("nested mixed-kind mapping x{}", k), vec![("G".into(), map1("o", mapn(mixed.clone()))), ("condition".into(), ys("not G"))], Box::new(|v| t_not(t_and(v)))),
            ];
            for (name, det, table) in mforms {
                let nested = name.starts_with("nested");
                let ds: Vec<Yaml> = if nested { mdocs.iter().map(|d| map1("o", d.clone())).collect() } else { mdocs.clone() };
                let c = case(det, ds, vec![0]);
                let (ex, parsed) = run_rule_case(ctx, &c, false);
                let ry = rule_yaml(&c);
                let p = match parsed {
                    Some(p) if p.load == "ok" => p,
                    _ => continue,
                };
                let got = tri_of(&p, 0);
                for (j, v) in vs.iter().enumerate() {
                    let want = table(v);
                    ctx.nontrivial.insert(hash_str(&format!("{}{:?}", name, v)));
                    if got.get(j).map(|s| s.as_str()) != Some(want.name()) {
                        ctx.violation("oracle", &format!("form `{}` operands {:?}: engine gives {:?}, truth table gives {}", name, v, got.get(j), want.name()), &ex, &ry, true);
                        break;
                    }
                }
            }
        }
        // (c') the same, each entry holding a list that stays an or-group of two searches
        //      (a literal and a regex are not batched together): still ONE operand per entry
        let seq2 = Yaml::Sequence((0..k).map(|i| map1(&format!("f{}", i), Yaml::Sequence(vec![ys("x"), ys("?^x$")]))).collect());
        forms.push((format!("all(ident) x{} [two-search entries]", k), vec![("G".into(), seq2.clone()), ("condition".into(), ys("all(G)"))], Box::new(|v| t_and(v)), false));
        forms.push((format!("sequence x{} [two-search entries]", k), vec![("G".into(), seq2.clone()), ("condition".into(), ys("G"))], Box::new(|v| t_or(v)), false));
        for n in 0..=k + 1 {
            forms.push((format!("of(ident,{}) x{} [two-search entries]", n, k), vec![("G".into(), seq2.clone()), ("condition".into(), ys(&format!("of(G, {})", n)))], Box::new(move |v| t_of(n, v)), false));
        }
        // (c'') operands that are numeric comparisons; false realised by a NON-numeric string, so a
        //       rewrite of `not (x > n)` into `x <= n` shows
        {
            let cids: Vec<(String, Yaml)> = (0..k).map(|i| (format!("P{}", i), map1(&format!("f{}", i), ys(">5")))).collect();
            let cdocs: Vec<Yaml> = vs.iter().map(|v| {
                let mut m = Mapping::new();
                for (i, t) in v.iter().enumerate() {
                    match t {
                        Tri::T => { m.insert(ys(&format!("f{}", i)), Yaml::Number(7u64.into())); }
                        Tri::F => { m.insert(ys(&format!("f{}", i)), ys("big")); }
                        Tri::M => {}
                    }
                }
                Yaml::Mapping(m)
            }).collect();
            let mut cforms: Vec<(String, Vec<(String, Yaml)>, Box<dyn Fn(&[Tri]) -> Tri>)> = vec![];
            let neg: Vec<String> = names.iter().map(|n| format!("not {}", n)).collect();
            cforms.push((format!("or of negated comparisons x{}", k), with_cond(&cids, &neg.join(" or ")), Box::new(|v| t_or(&v.iter().map(|x| t_not(*x)).collect::<Vec<_>>()))));
            cforms.push((format!("and of negated comparisons x{}", k), with_cond(&cids, &neg.join(" and ")), Box::new(|v| t_and(&v.iter().map(|x| t_not(*x)).collect::<Vec<_>>()))));
            let nseq = Yaml::Sequence((0..k).map(|i| map1(&format!("not(f{})", i), ys(">5"))).collect());
            cforms.push((format!("sequence of not(k) comparisons x{}", k), vec![("G".into(), nseq.clone()), ("condition".into(), ys("G"))], Box::new(|v| t_or(&v.iter().map(|x| t_not(*x)).collect::<Vec<_>>()))));
            cforms.push((format!("of(ident,0) over comparisons x{}", k), vec![("G".into(), Yaml::Sequence((0..k).map(|i| map1(&format!("f{}", i), ys(">5"))).collect())), ("condition".into(), ys("of(G, 0)"))], Box::new(|v| t_of(0, v))));
            for (name, det, table) in cforms {
                let c = case(det, cdocs.clone(), masks.clone());
                let (ex, parsed) = run_rule_case(ctx, &c, false);
                let ry = rule_yaml(&c);
                let p = match parsed {
                    Some(p) if p.load == "ok" => p,
                    _ => continue,
                };
                for mask in [0u64, 15] {
                    if mask == 15 && ex.agree {
                        continue;
                    }
                    let got = tri_of(&p, mask);
                    for (j, v) in vs.iter().enumerate() {
                        let want = table(v);
                        ctx.nontrivial.insert(hash_str(&format!("{}{:?}", name, v)));
                        let ok = if mask == 0 { got.get(j).map(|s| s.as_str()) == Some(want.name()) } else { (got.get(j).map(|s| s.as_str()) == Some("T")) == (want.name() == "T") };
                        if !ok {
                            ctx.violation("oracle", &format!("form `{}` operands {:?} (mask {}): engine gives {:?}, truth table gives {}", name, v, mask, got.get(j), want.name()), &ex, &ry, true);
                            break;
                        }
                    }
                }
            }
        }
        // (d) all/of over a key list (members: nested mappings on one object field)
        let members = Yaml::Sequence((0..k).map(|i| map1(&format!("f{}", i), ys("x"))).collect());
        forms.push((format!("all(key) x{}", k), vec![("G".into(), map1("all(o)", members.clone())), ("condition".into(), ys("G"))], Box::new(|v| t_and(v)), true));
        for n in 0..=k + 1 {
            forms.push((format!("of(key,{}) x{}", n, k), vec![("G".into(), map1(&format!("of(o, {})", n), members.clone())), ("condition".into(), ys("G"))], Box::new(move |v| t_of(n, v)), true));
        }
        forms.push((format!("list(key) x{}", k), vec![("G".into(), map1("o", members.clone())), ("condition".into(), ys("G"))], Box::new(|v| t_or(v)), true));
        for (name, det, table, nested) in forms {
            let ds: Vec<Yaml> = if nested { vs.iter().map(|v| nested_doc_for(v)).collect() } else { docs.clone() };
            let c = case(det, ds, vec![0, 15, 14, 10, 8]);
            let (ex, parsed) = run_rule_case(ctx, &c, false);
            let ry = rule_yaml(&c);
            let p = match parsed {
                Some(p) if p.load == "ok" => p,
                _ => {
                    ctx.violation("oracle", &format!("form {}: rule does not load: {}", name, trunc(&ex.imp, 200)), &ex, &ry, true);
                    continue;
                }
            };
            let got = tri_of(&p, 0);
            for (j, v) in vs.iter().enumerate() {
                let want = table(v);
                ctx.nontrivial.insert(hash_str(&format!("{}{:?}", name, v)));
                if got.get(j).map(|s| s.as_str()) != Some(want.name()) {
                    ctx.violation(
                        "oracle",
                        &format!("form `{}` operands {:?}: engine gives {:?}, truth table gives {}", name, v, got.get(j), want.name()),
                        &ex, &ry, true);
                    break;
                }
            }
            // the optimised rule: judged by the table whenever the model does not reproduce the
            // implementation's reply (a difference the faithful model reproduces is a C01 matter,
            // decided by the C01 check and its recorded findings)
            if !ex.agree {
                'masks: for mask in [15u64, 14, 10, 8] {
                    let got15 = tri_of(&p, mask);
                    for (j, v) in vs.iter().enumerate() {
                        let want = table(v);
                        let g = got15.get(j).map(|s| s.as_str());
                        if (g == Some("T")) != (want.name() == "T") {
                            ctx.violation(
                                "oracle",
                                &format!("form `{}` operands {:?}, optimised (mask {}): engine gives {:?}, truth table gives {}", name, v, mask, g, want.name()),
                                &ex, &ry, true);
                            break 'masks;
                        }
                    }
                }
            }
            // verdict = (result is true), also for the optimised rule (where the table result is T)
            if ctx.samples.len() < 6 {
                ctx.sample(json!({"form": name, "operand_vectors": vs.len(), "first_results": got.iter().take(9).collect::<Vec<_>>()}));
            }
        }
    }
}

/// (e) Operands that all read ONE field and are told apart only by the str() cast and the pattern:
/// on `{f: 7}`, `str(f): '7*'` is true, `str(f): '5*'` is false and the uncast `f: '5*'` is missing.
/// A rewrite that treats predicates on one field as interchangeable shows here.
fn c06_same_field(ctx: &mut Ctx) {
    let body = |t: Tri| -> Yaml {
        match t {
            Tri::T => map1("str(f)", ys("7*")),
            Tri::F => map1("str(f)", ys("5*")),
            Tri::M => map1("f", ys("5*")),
        }
    };
    let doc = map1("f", Yaml::Number(7u64.into()));
    let n = |x: Tri| t_not(x);
    let forms: Vec<(usize, &str, Box<dyn Fn(&[Tri]) -> Tri>)> = vec![
        (2, "not P0 and not P1", Box::new(move |v| t_and(&[n(v[0]), n(v[1])]))),
        (2, "not P0 or not P1", Box::new(move |v| t_or(&[n(v[0]), n(v[1])]))),
        (2, "not (P0 or P1)", Box::new(move |v| n(t_or(&v[0..2])))),
        (2, "not (P0 and P1)", Box::new(move |v| n(t_and(&v[0..2])))),
        (2, "P0 and not P1", Box::new(move |v| t_and(&[v[0], n(v[1])]))),
        (2, "P0 or P1", Box::new(|v| t_or(&v[0..2]))),
        (2, "P0 and P1", Box::new(|v| t_and(&v[0..2]))),
        (3, "not P0 and not P1 and not P2", Box::new(move |v| t_and(&[t_and(&[n(v[0]), n(v[1])]), n(v[2])]))),
        (3, "P2 and not P0 and not P1", Box::new(move |v| t_and(&[t_and(&[v[2], n(v[0])]), n(v[1])]))),
        (3, "not P0 and not P1 and P2", Box::new(move |v| t_and(&[t_and(&[n(v[0]), n(v[1])]), v[2]]))),
        (3, "not P0 or not P1 or not P2", Box::new(move |v| t_or(&[t_or(&[n(v[0]), n(v[1])]), n(v[2])]))),
    ];
    for (k, cond, table) in forms {
        for v in vectors(k) {
            let mut det: Vec<(String, Yaml)> = (0..k).map(|i| (format!("P{}", i), body(v[i]))).collect();
            det.push(("condition".into(), ys(cond)));
            let c = case(det, vec![doc.clone()], vec![0, 15, 2, 3]);
            let (ex, parsed) = run_rule_case(ctx, &c, false);
            let ry = rule_yaml(&c);
            let p = match parsed {
                Some(p) if p.load == "ok" => p,
                _ => continue,
            };
            ctx.nontrivial.insert(hash_str(&format!("same-field {} {:?}", cond, v)));
            let want = table(&v);
            for m in &p.masks {
                if m.mask != 0 && ex.agree {
                    continue;
                }
                let got = m.res[0].0.as_str();
                let ok = if m.mask == 0 { got == want.name() } else { (got == "T") == (want.name() == "T") };
                if !ok {
                    ctx.violation("oracle", &format!("condition `{}` over one field, operands {:?} (mask {}): engine gives {}, truth table gives {}", cond, v, m.mask, got, want.name()), &ex, &ry, true);
                    break;
                }
            }
        }
    }
}

/// A conjunction whose two operands read ONE field through two key forms, as a row of a sequence of
/// mappings (what the matrix pass turns into a table): true iff both operands are true, for every
/// operand vector, both orders, every mask.
fn c06_rows_same_field(ctx: &mut Ctx) {
    let doc = map1("f", Yaml::Number(7u64.into()));
    let plain = |t: Tri| -> Yaml { match t { Tri::T => Yaml::Number(7u64.into()), Tri::F => Yaml::Number(8u64.into()), Tri::M => ys("5*") } };
    let cast = |t: Tri| -> Yaml { match t { Tri::T => ys("7*"), _ => ys("5*") } };
    let masks = vec![0u64, 8, 15, 10, 14, 12];
    for a in [Tri::T, Tri::F, Tri::M] {
        for b in [Tri::T, Tri::F] {
            for swapped in [false, true] {
                for extra in 0..3 {
                    let e1 = ("f".to_string(), plain(a));
                    let e2 = ("str(f)".to_string(), cast(b));
                    let row = if swapped { mapn(vec![e2.clone(), e1.clone()]) } else { mapn(vec![e1.clone(), e2.clone()]) };
                    let mut rows = vec![row];
                    if extra >= 1 { rows.push(map1("f", ys("zz"))); }
                    if extra >= 2 { rows.insert(0, mapn(vec![("g".into(), ys("q")), ("f".into(), Yaml::Number(9u64.into()))])); }
                    let c = case(vec![("X".into(), Yaml::Sequence(rows)), ("condition".into(), ys("X"))], vec![doc.clone()], masks.clone());
                    let (ex, parsed) = run_rule_case(ctx, &c, false);
                    let p = match parsed {
                        Some(p) if p.load == "ok" => p,
                        _ => continue,
                    };
                    ctx.nontrivial.insert(hash_str(&ex.line));
                    let want_true = a == Tri::T && b == Tri::T;
                    for m in &p.masks {
                        let got = m.res[0].0.as_str();
                        if (got == "T") != want_true {
                            ctx.violation("oracle", &format!("a row whose two operands read one field ({:?} and {:?}, mask {}): engine gives {}, the conjunction is {}", a, b, m.mask, got, if want_true { "true" } else { "not true" }), &ex, &rule_yaml(&c), true);
                            break;
                        }
                    }
                }
            }
        }
    }
}

/// Quantified KEYS over lists of one kind (all regexes of one case class, all substring needles, …):
/// `of(f, n)` holds iff at least n members hold, `all(f)` iff all do — for every truth vector of
/// the members, every n from 0 to one more than the list is long.
fn c06_key_quantifiers(ctx: &mut Ctx) {
    let hit = ["a", "b", "c", "bc"];
    let miss = ["x", "y", "z", "q"];
    let kinds: Vec<(&str, Box<dyn Fn(&str) -> String>)> = vec![
        ("regex", Box::new(|w: &str| format!("?{}", w))),
        ("ci regex", Box::new(|w: &str| format!("i?{}", w.to_uppercase()))),
        ("contains", Box::new(|w: &str| format!("*{}*", w))),
        ("ci contains", Box::new(|w: &str| format!("i*{}*", w.to_uppercase()))),
        ("anchored regex", Box::new(|w: &str| format!("?^.*{}", w))),
    ];
    let docs = vec![map1("f", ys("abc")), map1("f", Yaml::Sequence(vec![ys("mm"), ys("abc")])), map1("g", ys("abc"))];
    for (kname, mk) in &kinds {
        for k in 2..=4usize {
            for bits in 0..(1u32 << k) {
                let v: Vec<Tri> = (0..k).map(|i| if bits & (1 << i) != 0 { Tri::T } else { Tri::F }).collect();
                let members: Vec<Yaml> = (0..k).map(|i| ys(&mk(if v[i] == Tri::T { hit[i] } else { miss[i] }))).collect();
                let mut keys: Vec<(String, Tri)> = vec![("all(f)".to_string(), t_and(&v)), ("f".to_string(), t_or(&v))];
                for n in 0..=k + 1 {
                    keys.push((format!("of(f, {})", n), t_of(n, &v)));
                }
                for (key, want) in keys {
                    let c = case(vec![("A".into(), map1(&key, Yaml::Sequence(members.clone()))), ("condition".into(), ys("A"))], docs.clone(), vec![0, 15]);
                    let (ex, parsed) = run_rule_case(ctx, &c, false);
                    let p = match parsed {
                        Some(p) if p.load == "ok" => p,
                        _ => continue,
                    };
                    ctx.nontrivial.insert(hash_str(&ex.line));
                    for m in &p.masks {
                        // string field, array holding the string: the members' truth; other field: never true
                        let got: Vec<bool> = m.res.iter().map(|r| r.0 == "T").collect();
                        let want_v = vec![want == Tri::T, want == Tri::T, key == "of(f, 0)" && false];
                        if got[0] != want_v[0] || got[1] != want_v[1] || (got[2] && key != "of(f, 0)") {
                            ctx.violation("oracle", &format!("`{}` over {} {} members with truth {:?} (mask {}): engine gives {:?} on (string, array holding it, absent field), the quantifier gives {}", key, k, kname, v, m.mask, got, want.name()), &ex, &rule_yaml(&c), true);
                            break;
                        }
                    }
                }
            }
        }
    }
}

/// Parenthesised chains of one operator joined with a chain of the OTHER operator by either
/// operator, and the same with identifiers that are groups themselves (a mapping is a
/// conjunction, a sequence of mappings a disjunction): the truth tables, plain and optimised.
fn c06_mixed_groups(ctx: &mut Ctx) {
    let vs6 = vectors(6);
    let docs6: Vec<Yaml> = vs6.iter().map(|v| doc_for(v)).collect();
    let ids6: Vec<(String, Yaml)> = (0..6).map(|i| (format!("Q{}", i), map1(&format!("f{}", i), ys("x")))).collect();
    let mut grouped: Vec<(String, Yaml)> = vec![
        ("M".into(), mapn((0..3).map(|i| (format!("f{}", i), ys("x"))).collect())),
        ("S".into(), Yaml::Sequence((3..6).map(|i| map1(&format!("f{}", i), ys("x"))).collect())),
    ];
    grouped.extend(ids6.iter().cloned());
    let a3 = |v: &[Tri]| t_and(&v[0..3]);
    let o3 = |v: &[Tri]| t_or(&v[3..6]);
    let forms: Vec<(&str, Box<dyn Fn(&[Tri]) -> Tri>)> = vec![
        ("(Q0 and Q1 and Q2) and (Q3 or Q4 or Q5)", Box::new(move |v| t_and(&[a3(v), o3(v)]))),
        ("(Q3 or Q4 or Q5) and (Q0 and Q1 and Q2)", Box::new(move |v| t_and(&[o3(v), a3(v)]))),
        ("(Q3 or Q4 or Q5) or (Q0 and Q1 and Q2)", Box::new(move |v| t_or(&[o3(v), a3(v)]))),
        ("(Q0 and Q1 and Q2) or (Q3 or Q4 or Q5)", Box::new(move |v| t_or(&[a3(v), o3(v)]))),
        ("not ((Q0 and Q1 and Q2) and (Q3 or Q4 or Q5))", Box::new(move |v| t_not(t_and(&[a3(v), o3(v)])))),
        ("M and S", Box::new(move |v| t_and(&[a3(v), o3(v)]))),
        ("S and M", Box::new(move |v| t_and(&[o3(v), a3(v)]))),
        ("S or M", Box::new(move |v| t_or(&[o3(v), a3(v)]))),
        ("M or S", Box::new(move |v| t_or(&[a3(v), o3(v)]))),
        ("M and (Q3 or Q4 or Q5)", Box::new(move |v| t_and(&[a3(v), o3(v)]))),
        ("S or (Q0 and Q1 and Q2)", Box::new(move |v| t_or(&[o3(v), a3(v)]))),
        ("not (S or M)", Box::new(move |v| t_not(t_or(&[o3(v), a3(v)])))),
    ];
    for (cond, table) in forms {
        let mut det = grouped.clone();
        det.push(("condition".into(), ys(cond)));
        let c = case(det, docs6.clone(), vec![0, 15, 2, 3]);
        let (ex, parsed) = run_rule_case(ctx, &c, false);
        let p = match parsed {
            Some(p) if p.load == "ok" => p,
            _ => continue,
        };
        ctx.nontrivial.insert(hash_str(cond));
        'm: for m in &p.masks {
            for (j, v) in vs6.iter().enumerate() {
                let want = table(v);
                let got = m.res[j].0.as_str();
                let ok = if m.mask == 0 { got == want.name() } else { (got == "T") == (want == Tri::T) };
                if !ok {
                    ctx.violation("oracle", &format!("condition `{}` with operand results {:?} (mask {}): engine gives {}, truth table gives {}", cond, v, m.mask, got, want.name()), &ex, &rule_yaml(&c), true);
                    break 'm;
                }
            }
        }
    }
}

/// Operands that read ONE field with different needles, on documents in which that field is an ARRAY
/// whose elements satisfy the operands separately: each operand is true when SOME element matches,
/// and the conjunction is the table over those results — plain and optimised.
fn c06_same_field_arrays(ctx: &mut Ctx) {
    let arrays: Vec<Vec<&str>> = vec![vec!["domain admins", "remote desktop users"], vec!["domain admins remote users"], vec!["admins"], vec!["x", "remote", "users of domain"], vec![], vec!["domain", "admins", "remote", "users"]];
    let mut docs: Vec<Yaml> = arrays.iter().map(|a| map1("groups", Yaml::Sequence(a.iter().map(|x| ys(x)).collect()))).collect();
    docs.push(map1("groups", ys("domain admins remote users")));
    docs.push(map1("other", ys("x")));
    let needles = ["domain", "admins", "remote", "users"];
    let has = |d: &Yaml, n: &str| -> Tri {
        match d.as_mapping().and_then(|m| m.get(ys("groups"))) {
            Some(Yaml::Sequence(xs)) => if xs.iter().any(|x| x.as_str().map(|t| t.contains(n)).unwrap_or(false)) { Tri::T } else { Tri::F },
            Some(Yaml::String(t)) => if t.contains(n) { Tri::T } else { Tri::F },
            _ => Tri::M,
        }
    };
    for shape in 0..3 {
        let ids: Vec<(String, Yaml)> = (0..4).map(|i| (format!("P{}", i), map1("groups", ys(&match shape { 0 => format!("*{}*", needles[i]), 1 => format!("i*{}*", needles[i].to_uppercase()), _ => format!("?{}", needles[i]) })))).collect();
        let forms: Vec<(&str, Box<dyn Fn(&[Tri]) -> Tri>)> = vec![
            ("P0 and P1 and P2", Box::new(|v| t_and(&v[0..3]))),
            ("P0 and P1", Box::new(|v| t_and(&v[0..2]))),
            ("P0 and P1 and P2 and P3", Box::new(|v| t_and(&v[0..4]))),
            ("not (P0 and P1 and P2)", Box::new(|v| t_not(t_and(&v[0..3])))),
            ("(P0 and P1 and P2) or P3", Box::new(|v| t_or(&[t_and(&v[0..3]), v[3]]))),
            ("P0 or P1 or P2", Box::new(|v| t_or(&v[0..3]))),
        ];
        for (cond, table) in forms {
            let mut det = ids.clone();
            det.push(("condition".into(), ys(cond)));
            let c = case(det, docs.clone(), vec![0, 15, 3, 2, 9, 11]);
            let (ex, parsed) = run_rule_case(ctx, &c, false);
            let p = match parsed {
                Some(p) if p.load == "ok" => p,
                _ => continue,
            };
            ctx.nontrivial.insert(hash_str(&format!("arrays{}{}", shape, cond)));
            'm: for m in &p.masks {
                for (j, d) in docs.iter().enumerate() {
                    let v: Vec<Tri> = needles.iter().map(|n| has(d, n)).collect();
                    let want = table(&v);
                    if (m.res[j].0 == "T") != (want == Tri::T) {
                        ctx.violation("oracle", &format!("`{}` over operands that read one array field (mask {}): document {} gives {}, the operands are {:?}", cond, m.mask, serde_yaml::to_string(d).unwrap_or_default().replace('\n', " "), m.res[j].0, v), &ex, &rule_yaml(&c), true);
                        break 'm;
                    }
                }
            }
        }
    }
}

fn with_cond(ids: &[(String, Yaml)], cond: &str) -> Vec<(String, Yaml)> {
    let mut d = ids.to_vec();
    d.push(("condition".into(), ys(cond)));
    d
}

// ------------------------------------------------------------------------------------ C05

pub fn cond_sx(c: &Cond) -> String {
    match c {
        Cond::Id(i) => format!("(id {})", sx::enc(i)),
        Cond::Not(x) => format!("(not {})", cond_sx(x)),
        Cond::And(a, b) => format!("(b and {} {})", cond_sx(a), cond_sx(b)),
        Cond::Or(a, b) => format!("(b or {} {})", cond_sx(a), cond_sx(b)),
        Cond::All(i) => format!("(all (id {}))", sx::enc(i)),
        Cond::Of(i, n) => format!("(of {} (id {}))", n, sx::enc(i)),
        Cond::Cmp(f, k, op, lit) => format!("(b {} (cast {} {}) {})", opn(op), sx::enc(f), k, litsx(k, lit)),
        Cond::CmpRev(f, k, op, lit) => format!("(b {} {} (cast {} {}))", opn(op), litsx(k, lit), sx::enc(f), k),
        Cond::StrEq(a, b) => format!("(b eq (cast {} str) (cast {} str))", sx::enc(a), sx::enc(b)),
        Cond::CmpFF(a, k, op, b) => format!("(b {} (cast {} {}) (cast {} {}))", opn(op), sx::enc(a), k, sx::enc(b), k),
    }
}

fn opn(op: &str) -> &'static str {
    match op {
        "==" => "eq",
        ">" => "gt",
        ">=" => "ge",
        "<" => "lt",
        _ => "le",
    }
}

fn litsx(kind: &str, lit: &str) -> String {
    if kind == "flt" {
        format!("(float {})", lit.parse::<f64>().unwrap().to_bits())
    } else {
        format!("(int {})", lit)
    }
}

fn enum_conds(n: usize, atoms: &[Cond]) -> Vec<Cond> {
    // all ASTs with exactly n operator/atom nodes
    if n == 0 {
        return vec![];
    }
    if n == 1 {
        return atoms.to_vec();
    }
    let mut out = vec![];
    for x in enum_conds(n - 1, atoms) {
        out.push(Cond::Not(Box::new(x)));
    }
    for l in 1..n - 1 {
        let ls = enum_conds(l, atoms);
        let rs = enum_conds(n - 1 - l, atoms);
        for a in &ls {
            for b in &rs {
                out.push(Cond::And(Box::new(a.clone()), Box::new(b.clone())));
                out.push(Cond::Or(Box::new(a.clone()), Box::new(b.clone())));
            }
        }
    }
    out
}

fn full_parens(c: &Cond) -> String {
    match c {
        Cond::Not(x) => format!("(not ({}))", full_parens(x)),
        Cond::And(a, b) => format!("(({}) and ({}))", full_parens(a), full_parens(b)),
        Cond::Or(a, b) => format!("(({}) or ({}))", full_parens(a), full_parens(b)),
        other => {
            let mut r = Rng::new(0);
            gen::print_cond(other, &mut r, 0)
        }
    }
}

pub fn run_c05(ctx: &mut Ctx, _known: &Known) {
    ctx.exhaustive = true;
    crate::suites3::cast_cast_or_chains(ctx, "C05");
    // identifiers: one-field predicates; names include words that begin with keyword letters
    let names = ["A", "B", "android", "order", "nothing", "allow", "offline", "note", "andy", "orb", "ofx", "allx", "inty", "strx", "fltx", "not_a", "or_b", "and.c",
        // keywords are lower case only: these are identifiers
        "OR", "AND", "Not", "NOT", "Or", "aNd", "ALL", "Of", "INT",
        // letters and digits outside ASCII continue an identifier (they cannot start one)
        "andré", "orä", "notß", "all日", "ofж", "Aé1", "x٣"];
    let mut ids: Vec<(String, Yaml)> = vec![];
    for (i, n) in names.iter().enumerate() {
        ids.push((n.to_string(), map1(&format!("f{}", i % 3), ys("x"))));
    }
    let docs: Vec<Yaml> = vectors(3).iter().map(|v| doc_for(v)).collect();
    let atoms: Vec<Cond> = vec![
        Cond::Id("A".into()),
        Cond::Id("B".into()),
        Cond::All("A".into()),
        Cond::Of("B".into(), 1),
        Cond::Cmp("f0".into(), "int", ">=", "1".into()),
        Cond::Cmp("f1".into(), "int", ">", "50".into()),
    ];
    let max_nodes = if ctx.tier == "thorough" { 6 } else { 5 };
    let mut all: Vec<Cond> = vec![];
    for n in 1..=max_nodes {
        let atoms_n: Vec<Cond> = if n <= 4 { atoms.clone() } else { atoms[..2].to_vec() };
        all.extend(enum_conds(n, &atoms_n));
    }
    // keyword-prefixed identifiers as atoms in small conditions
    for n in names.iter().skip(2) {
        all.push(Cond::And(Box::new(Cond::Id(n.to_string())), Box::new(Cond::Not(Box::new(Cond::Id("A".into()))))));
        all.push(Cond::Or(Box::new(Cond::Not(Box::new(Cond::Id(n.to_string())))), Box::new(Cond::Id(n.to_string()))));
    }
    for (a, b) in [("OR", "AND"), ("Not", "NOT"), ("Or", "aNd"), ("AND", "OR"), ("NOT", "Not")] {
        all.push(Cond::Or(Box::new(Cond::Or(Box::new(Cond::Id("A".into())), Box::new(Cond::Id(a.to_string())))), Box::new(Cond::Id(b.to_string()))));
        all.push(Cond::And(Box::new(Cond::Id(a.to_string())), Box::new(Cond::Not(Box::new(Cond::Id(b.to_string()))))));
        all.push(Cond::Or(Box::new(Cond::Id(a.to_string())), Box::new(Cond::And(Box::new(Cond::Id(b.to_string())), Box::new(Cond::Id("B".into()))))));
    }
    // a negated GROUP followed by another operator (where a misread `not(` would swallow the rest)
    {
        let a = || Box::new(Cond::Id("A".into()));
        let b = || Box::new(Cond::Id("B".into()));
        let nothing = || Box::new(Cond::Id("nothing".into()));
        all.push(Cond::And(Box::new(Cond::Not(Box::new(Cond::Or(a(), b())))), nothing()));
        all.push(Cond::Or(Box::new(Cond::Not(Box::new(Cond::And(a(), b())))), nothing()));
        all.push(Cond::And(nothing(), Box::new(Cond::Or(Box::new(Cond::Not(Box::new(Cond::Or(a(), b())))), a()))));
        all.push(Cond::Or(Box::new(Cond::And(Box::new(Cond::Not(Box::new(Cond::Or(b(), a())))), b())), Box::new(Cond::Not(Box::new(Cond::And(a(), nothing()))))));
        all.push(Cond::And(Box::new(Cond::Not(Box::new(Cond::Cmp("f0".into(), "int", ">=", "1".into())))), a()));
    }
    // random larger conditions
    let extra = budget(ctx, 300, 6000);
    for i in 0..extra {
        let mut r = Rng::new(ctx.seed.wrapping_add(i as u64 * 7919));
        let idn: Vec<String> = names.iter().map(|s| s.to_string()).collect();
        all.push(gen::gen_cond(&mut r, &idn, 0));
    }
    // parentheses override precedence in the optimised rule too: two parenthesised chains joined by
    // the other operator (what the flattening pass regroups)
    {
        let ids6: Vec<(String, Yaml)> = (0..6).map(|i| (format!("Q{}", i), map1(&format!("f{}", i), ys("x")))).collect();
        let vs6 = vectors(6);
        let docs6: Vec<Yaml> = vs6.iter().map(|v| doc_for(v)).collect();
        let forms: Vec<(&str, Box<dyn Fn(&[Tri]) -> Tri>)> = vec![
            ("(Q0 or Q1 or Q2) and (Q3 or Q4 or Q5)", Box::new(|v: &[Tri]| t_and(&[t_or(&v[0..3]), t_or(&v[3..6])]))),
            ("(Q0 and Q1 and Q2) or (Q3 and Q4 and Q5)", Box::new(|v: &[Tri]| t_or(&[t_and(&v[0..3]), t_and(&v[3..6])]))),
            ("(Q0 or Q1 or Q2) and Q3 and (Q4 or Q5)", Box::new(|v: &[Tri]| t_and(&[t_and(&[t_or(&v[0..3]), v[3]]), t_or(&v[4..6])]))),
            ("Q0 and (Q1 or Q2 or Q3) and Q4", Box::new(|v: &[Tri]| t_and(&[t_and(&[v[0], t_or(&v[1..4])]), v[4]]))),
            ("Q0 or (Q1 and Q2 and Q3) or Q4", Box::new(|v: &[Tri]| t_or(&[t_or(&[v[0], t_and(&v[1..4])]), v[4]]))),
            ("not ((Q0 or Q1 or Q2) and (Q3 or Q4 or Q5))", Box::new(|v: &[Tri]| t_not(t_and(&[t_or(&v[0..3]), t_or(&v[3..6])])))),
            // `not` reaches exactly one operand, in the optimised rule too
            ("not Q0 and not Q1", Box::new(|v: &[Tri]| t_and(&[t_not(v[0]), t_not(v[1])]))),
            ("not Q0 and not Q1 and Q2", Box::new(|v: &[Tri]| t_and(&[t_and(&[t_not(v[0]), t_not(v[1])]), v[2]]))),
            ("Q2 and (not Q0 and not Q1)", Box::new(|v: &[Tri]| t_and(&[v[2], t_and(&[t_not(v[0]), t_not(v[1])])]))),
            ("Q2 and not Q0 and not Q1", Box::new(|v: &[Tri]| t_and(&[t_and(&[v[2], t_not(v[0])]), t_not(v[1])]))),
            ("not Q0 or not Q1", Box::new(|v: &[Tri]| t_or(&[t_not(v[0]), t_not(v[1])]))),
            ("not Q0 or not Q1 or Q2", Box::new(|v: &[Tri]| t_or(&[t_or(&[t_not(v[0]), t_not(v[1])]), v[2]]))),
            ("not (Q0 or Q1) and Q2", Box::new(|v: &[Tri]| t_and(&[t_not(t_or(&v[0..2])), v[2]]))),
            ("not (Q0 and Q1) or Q2", Box::new(|v: &[Tri]| t_or(&[t_not(t_and(&v[0..2])), v[2]]))),
            ("not Q0 and (not Q1 or not Q2)", Box::new(|v: &[Tri]| t_and(&[t_not(v[0]), t_or(&[t_not(v[1]), t_not(v[2])])]))),
            // a parenthesised chain of the SAME operator on the right: operands stay in written order
            ("not (Q0 and (Q1 and Q2 and Q3))", Box::new(|v: &[Tri]| t_not(t_and(&[v[0], t_and(&v[1..4])])))),
            ("not ((Q1 and Q2 and Q3) and Q0)", Box::new(|v: &[Tri]| t_not(t_and(&[t_and(&v[1..4]), v[0]])))),
            ("not (Q0 and (Q1 and Q2 and Q3) and Q4)", Box::new(|v: &[Tri]| t_not(t_and(&[t_and(&[v[0], t_and(&v[1..4])]), v[4]])))),
            ("not (Q0 or (Q1 or Q2 or Q3))", Box::new(|v: &[Tri]| t_not(t_or(&[v[0], t_or(&v[1..4])])))),
            ("Q0 and (Q1 and Q2 and Q3)", Box::new(|v: &[Tri]| t_and(&[v[0], t_and(&v[1..4])]))),
            ("not (Q0 and (Q1 and Q2))", Box::new(|v: &[Tri]| t_not(t_and(&[v[0], t_and(&v[1..3])])))),
        ];
        for (text, table) in forms {
            let mut det = ids6.clone();
            det.push(("condition".into(), ys(text)));
            let cs = case(det, docs6.clone(), vec![0, 2, 3, 15]);
            let (ex, parsed) = run_rule_case(ctx, &cs, false);
            let p = match parsed {
                Some(p) if p.load == "ok" => p,
                _ => continue,
            };
            ctx.nontrivial.insert(hash_str(text));
            for m in &p.masks {
                if m.mask != 0 && ex.agree {
                    continue;
                }
                for (j, v) in vs6.iter().enumerate() {
                    let want = table(v);
                    let got = m.res[j].0.as_str();
                    let ok = if m.mask == 0 { got == want.name() } else { (got == "T") == (want.name() == "T") };
                    if !ok {
                        ctx.violation("oracle", &format!("condition `{}` (mask {}) on operands {:?}: engine gives {}, the grammar and the tables give {}", text, m.mask, v, got, want.name()), &ex, text, true);
                        break;
                    }
                }
            }
        }
    }
    for (ci, c) in all.iter().enumerate() {
        let want = cond_sx(c);
        let mut r = Rng::new(ctx.seed ^ (ci as u64).wrapping_mul(0x9E37));
        let variants = vec![
            ("minimal", { let mut r0 = Rng::new(1); gen::print_cond(c, &mut r0, 0) }),
            ("fully parenthesised", full_parens(c)),
            ("random parentheses and spacing", gen::print_cond(c, &mut r, 35)),
            ("outer parentheses", format!("( {} )", { let mut r0 = Rng::new(2); gen::print_cond(c, &mut r0, 0) })),
        ];
        let mut variants = variants;
        if ci % 20 == 3 {
            // any amount of white space: wide gaps between the tokens, long runs in front and behind
            let minimal = { let mut r0 = Rng::new(1); gen::print_cond(c, &mut r0, 0) };
            variants.push(("gaps of 40 blanks", minimal.replace(' ', &" ".repeat(40))));
            variants.push(("gaps of 300 blanks and tabs", minimal.replace(' ', &format!("{}\t{}", " ".repeat(150), " ".repeat(149)))));
            variants.push(("2000 blanks in front and behind", format!("{}{}{}", " ".repeat(2000), minimal, " ".repeat(2000))));
        }
        {
            // `not` needs its blank: `not(` is the key modifier. A spelling the grammar refuses may be
            // refused; if it is read, it has to mean what the spelling with the blank means
            let minimal = { let mut r0 = Rng::new(1); gen::print_cond(c, &mut r0, 0) };
            let minimal = minimal.split_whitespace().collect::<Vec<_>>().join(" ");
            if minimal.contains("not (") {
                variants.push(("compact not(", minimal.replace("not (", "not(")));
            }
            if minimal.contains("and (") || minimal.contains("or (") {
                variants.push(("compact and( / or(", minimal.replace("and (", "and(").replace("or (", "or(")));
            }
        }
        let mut first_res: Option<Vec<String>> = None;
        for (vn, text) in variants {
            let mut det = ids.clone();
            det.push(("condition".into(), ys(&text)));
            let cs = case(det, docs.clone(), vec![0]);
            let (ex, parsed) = run_rule_case(ctx, &cs, false);
            let p = match parsed {
                Some(p) if p.load == "ok" => p,
                _ if vn.starts_with("compact") => continue,
                _ => {
                    ctx.violation("oracle", &format!("condition `{}` ({}) does not load: {}", text, vn, trunc(&ex.imp, 160)), &ex, &text, true);
                    continue;
                }
            };
            ctx.nontrivial.insert(hash_str(&text));
            if p.expr != want {
                ctx.violation(
                    "oracle",
                    &format!("condition `{}` ({}) parses to {} but the grammar (not 95 > cmp 90 > or 80 > and 70, left-assoc) gives {}", text, vn, p.expr, want),
                    &ex, &text, true);
                continue;
            }
            let res = tri_of(&p, 0);
            match &first_res {
                None => first_res = Some(res),
                Some(r0) => {
                    if *r0 != res {
                        ctx.violation("oracle", &format!("condition `{}`: verdicts change with redundant parentheses/spaces", text), &ex, &text, true);
                    }
                }
            }
            if ctx.samples.len() < 6 && ci % 37 == 5 {
                ctx.sample(json!({"condition": text, "variant": vn, "tree": want}));
            }
        }
    }
    // the grammar is FIXED: what a condition means does not depend on what was loaded — or refused —
    // before on the same thread. 300 refused conditions whose error sits inside parentheses, inside
    // a cast, inside of(..); then conditions with parentheses again, against their first reading
    {
        let probes = ["(A or B) and A", "(A)", "((A and B)) or not (B)", "not (A and (B or A))", "(int(f0) >= 1) and (A or B)", "of(B, 1) and (all(A))"];
        let read = |ctx: &mut Ctx, text: &str| -> (String, Exchange) {
            let mut det = ids.clone();
            det.push(("condition".into(), ys(text)));
            let cs = case(det, docs.clone(), vec![0]);
            let (ex, parsed) = run_rule_case(ctx, &cs, false);
            (match parsed { Some(p) if p.load == "ok" => format!("ok {} {:?}", p.expr, tri_of(&p, 0)), _ => format!("refused: {}", trunc(&ex.imp, 80)) }, ex)
        };
        let before: Vec<String> = probes.iter().map(|t| read(ctx, t).0).collect();
        let bad = ["(A or ) and B", "((A and) ) or B", "(A or (B and )) and A", "(int(f0) > ) or A", "(((A or", "(A or B)) and A", "(of(A, ) or B) and A", "not (not (not (A and )))", "(A and int()) or B", "((((((A or ))))))"];
        for round in 0..30 {
            for b in bad.iter() {
                let _ = read(ctx, b);
            }
            if round % 10 == 9 {
                for (k, t) in probes.iter().enumerate() {
                    let (now, ex) = read(ctx, t);
                    ctx.nontrivial.insert(hash_str(&format!("history{}{}", round, t)));
                    if now != before[k] {
                        ctx.violation("oracle", &format!("after {} refused conditions on the same thread `{}` reads differently: {} (before: {})", (round + 1) * bad.len(), t, now, before[k]), &ex, t, true);
                        return;
                    }
                }
            }
        }
    }
}

// ------------------------------------------------------------------------------------ C07

fn strings_upto(alpha: &[char], n: usize) -> Vec<String> {
    let mut out = vec![String::new()];
    let mut frontier = vec![String::new()];
    for _ in 0..n {
        let mut next = vec![];
        for s in &frontier {
            for a in alpha {
                let mut t = s.clone();
                t.push(*a);
                next.push(t);
            }
        }
        out.extend(next.iter().cloned());
        frontier = next;
    }
    out
}

/// The documented relation of a pattern string, computed with std string operations.
pub fn pattern_rel(pat: &str, h: &str) -> Option<bool> {
    let (ci, p) = match pat.strip_prefix('i') {
        Some(r) => (true, r),
        None => (false, pat),
    };
    let fold = |s: &str| if ci { s.to_ascii_lowercase() } else { s.to_string() };
    if let Some(re) = p.strip_prefix('?') {
        let r = regex::RegexBuilder::new(re).case_insensitive(ci).build().ok()?;
        return Some(r.is_match(h));
    }
    for pre in [">=", ">", "<=", "<", "="] {
        if p.starts_with(pre) {
            return None; // numeric predicate, not a string relation
        }
    }
    let hh = fold(h);
    Some(if p == "*" {
        true
    } else if p.starts_with('*') && p.ends_with('*') && p.len() >= 2 {
        hh.contains(&fold(&p[1..p.len() - 1]))
    } else if let Some(s) = p.strip_prefix('*') {
        hh.ends_with(&fold(s))
    } else if let Some(s) = p.strip_suffix('*') {
        hh.starts_with(&fold(s))
    } else if p.len() > 1 && ((p.starts_with('"') && p.ends_with('"')) || (p.starts_with('\'') && p.ends_with('\''))) {
        hh == fold(&p[1..p.len() - 1])
    } else {
        hh == fold(p)
    })
}

pub fn run_c07(ctx: &mut Ctx, _known: &Known) {
    ctx.exhaustive = true;
    crate::suites3::same_field_triples(ctx, "C07", if ctx.tier == "thorough" { 1 } else { 2 });
    let alpha = ['a', 'b', 'A'];
    let needles = strings_upto(&alpha, if ctx.tier == "thorough" { 3 } else { 2 });
    let hays = strings_upto(&alpha, if ctx.tier == "thorough" { 4 } else { 3 });
    let docs: Vec<Yaml> = hays.iter().map(|h| map1("f", ys(h))).collect();
    let mut patterns: Vec<String> = vec![];
    for n in &needles {
        for shape in 0..5 {
            let p = match shape {
                0 => n.clone(),
                1 => format!("{}*", n),
                2 => format!("*{}", n),
                3 => format!("*{}*", n),
                _ => format!("'{}'", n),
            };
            patterns.push(p.clone());
            patterns.push(format!("i{}", p));
        }
    }
    patterns.push("*".into());
    for re in ["?a", "?^a", "?b$", "?a.*b", "?^$", "i?ab", "?[ab]b", "?a|b", "i?^A.*B$"] {
        patterns.push(re.to_string());
    }
    patterns.sort();
    patterns.dedup();
    let masks = vec![0u64, 15];
    // singles
    for p in &patterns {
        string_case(ctx, vec![p.clone()], &docs, &hays, &masks);
    }
    // white space is part of the text: scalar values with leading / trailing blanks, every shape
    {
        let ws_hays: Vec<String> = vec!["a", " a", "a ", " a ", " ", "", "\ta", "xa", " ax", "A", " A"].into_iter().map(|s| s.to_string()).collect();
        let ws_docs: Vec<Yaml> = ws_hays.iter().map(|h| map1("f", ys(h))).collect();
        for w in [" a", "a ", " a ", " ", "\ta", "a\t"] {
            for shape in 0..5 {
                let p = match shape {
                    0 => w.to_string(),
                    1 => format!("{}*", w),
                    2 => format!("*{}", w),
                    3 => format!("*{}*", w),
                    _ => format!("'{}'", w),
                };
                for pre in ["", "i"] {
                    string_case(ctx, vec![format!("{}{}", pre, p)], &ws_docs, &ws_hays, &masks);
                    string_case(ctx, vec![format!("{}{}", pre, p), "zq".to_string()], &ws_docs, &ws_hays, &masks);
                }
            }
        }
    }
    // quotes inside quotes: only ONE surrounding pair is removed
    {
        let q_hays: Vec<String> = vec!["a", "\"a\"", "'a'", "'", "\"", "*", "\"*", "''", "a\"", "\"a"].into_iter().map(|s| s.to_string()).collect();
        let q_docs: Vec<Yaml> = q_hays.iter().map(|h| map1("f", ys(h))).collect();
        for p in ["\"\"a\"\"", "'''", "\"\"*\"", "''a''", "\"'a'\"", "'\"a\"'", "\"\"\"\"", "'a''", "\"\"a\""] {
            for pre in ["", "i"] {
                string_case(ctx, vec![format!("{}{}", pre, p)], &q_docs, &q_hays, &masks);
                string_case(ctx, vec![format!("{}{}", pre, p), "zq".to_string()], &q_docs, &q_hays, &masks);
            }
        }
    }
    // only a lower-case `i` is the case flag: a pattern that begins with a capital I, or with
    // another letter followed by the flag letter, is plain text
    {
        let i_hays: Vec<String> = vec!["Ia", "a", "A", "ia", "I", "IA", "ii", "xIa", "I?a", "Iab", "ab", "", "i", "?a", "Ia*"].into_iter().map(|s| s.to_string()).collect();
        let i_docs: Vec<Yaml> = i_hays.iter().map(|h| map1("f", ys(h))).collect();
        for p in ["Ia", "I*", "Ia*", "*Ia", "*I*", "I?a", "I", "IA", "II", "I\"a\"", "Ii", "iI", "iIa*", "ai", "a*i", "I?^a"] {
            string_case(ctx, vec![p.to_string()], &i_docs, &i_hays, &masks);
            string_case(ctx, vec![p.to_string(), "zq".to_string()], &i_docs, &i_hays, &masks);
            string_case(ctx, vec![p.to_string(), "izq*".to_string(), "?^zz".to_string()], &i_docs, &i_hays, &masks);
        }
    }
    // a backslash is an ordinary character of the needle, also right before a wildcard
    {
        let b_hays: Vec<String> = vec!["C:\\Temp\\a.exe", "C:\\Temp\\", "C:\\Temp*", "C:\\Temp", "x\\bin\\y", "\\bin\\", "\\bin*", "a\\", "a*", "a", "\\", "*", "\\*", "a\\b", "ab\\"].into_iter().map(|s| s.to_string()).collect();
        let b_docs: Vec<Yaml> = b_hays.iter().map(|h| map1("f", ys(h))).collect();
        for p in ["C:\\Temp\\*", "*\\bin\\*", "a\\*", "*a\\", "\\*", "*\\", "*\\*", "a\\", "\\", "iC:\\TEMP\\*", "i*\\BIN\\*", "a\\b*", "*\\b"] {
            string_case(ctx, vec![p.to_string()], &b_docs, &b_hays, &masks);
            string_case(ctx, vec![p.to_string(), "zq".to_string()], &b_docs, &b_hays, &masks);
        }
    }
    // regexes whose leading / trailing `.*` the optimiser strips: flags and anchors survive
    {
        let r_hays: Vec<String> = vec!["ab", "AB", "xaby", "XABY", "Ab", "a", "", "b", "ba", "xAb", "abab", "a\nb", "ab\n"].into_iter().map(|s| s.to_string()).collect();
        let r_docs: Vec<Yaml> = r_hays.iter().map(|h| map1("f", ys(h))).collect();
        for p in ["i?.*ab", "i?ab.*", "i?.*ab.*", "?.*ab", "?ab.*", "?.*ab.*", "i?^.*ab$", "i?.*a.*b.*", "?(?i).*ab", "i?.*AB", "i?.*[a]b.*", "?.*", "i?.*", "?.*ab$", "i?^ab.*"] {
            string_case(ctx, vec![p.to_string()], &r_docs, &r_hays, &masks);
            string_case(ctx, vec![p.to_string(), "zq".to_string()], &r_docs, &r_hays, &masks);
            string_case(ctx, vec![p.to_string(), "i?.*zq".to_string()], &r_docs, &r_hays, &masks);
        }
    }
    // line breaks and other control characters are ordinary characters of the VALUE: `^` / `$` are
    // the ends of the whole text, `.` is every character but `\n` — alone, in lists, optimised
    {
        let l_hays: Vec<String> = vec!["a\rb", "a\nb", "a\r\nb", "ab", "a.b", "x\nab", "ab\nx", "ab\n", "\nab", "a\u{2028}b", "a\u{85}b", "a\tb", "a\u{0}b", "AB\n", "a\r", "\ra"].into_iter().map(|s| s.to_string()).collect();
        let l_docs: Vec<Yaml> = l_hays.iter().map(|h| map1("f", ys(h))).collect();
        for p in ["?a.b", "?^ab$", "?^ab", "?ab$", "?a.+b", "?^a.*b$", "i?a.b", "i?^ab$", "?a\\sb", "?a[^x]b", "?^a", "?b$", "?(?m)^ab$", "?(?s)a.b", "?a$", "?^$"] {
            string_case(ctx, vec![p.to_string()], &l_docs, &l_hays, &masks);
            string_case(ctx, vec![p.to_string(), "?zq".to_string()], &l_docs, &l_hays, &masks);
            string_case(ctx, vec![p.to_string(), "zq*".to_string()], &l_docs, &l_hays, &masks);
        }
        for p in ["ab", "ab*", "*ab", "*ab*", "a\nb", "*\n", "a\r*", "iAB*", "i*AB"] {
            string_case(ctx, vec![p.to_string()], &l_docs, &l_hays, &masks);
        }
    }
    // lists of two (all pairs in thorough; a deterministic slice in quick), three and four
    let step = if ctx.tier == "thorough" { 1 } else { 7 };
    let mut idx = 0usize;
    for (i, p) in patterns.iter().enumerate() {
        for q in patterns.iter().skip(i) {
            idx += 1;
            if idx % step != 0 {
                continue;
            }
            string_case(ctx, vec![p.clone(), q.clone()], &docs, &hays, &masks);
        }
    }
    let n = budget(ctx, 300, 8000);
    let long_docs: Vec<String> = vec!["", "abab", "aaa", "Ab", "bAa", "xaby", "日a", "aÄb", "ÄÄ", "a\nb", "ab ab", "AAAA", "baab", " a", "a ", " ", "a", "\ta", " ab ", "b a"].into_iter().map(|s| s.to_string()).collect();
    let ldocs: Vec<Yaml> = long_docs.iter().map(|h| map1("f", ys(h))).collect();
    for i in 0..n {
        let mut r = Rng::new(ctx.seed.wrapping_mul(31).wrapping_add(i as u64));
        let k = 2 + r.below(3);
        let mut ps = vec![];
        for _ in 0..k {
            let w = *r.pick(&["a", "b", "ab", "ba", "A", "aB", "aa", "", "Ä", "日", "ab ab", "bab", " a", "a ", " ", "\ta", " ab "]);
            let shape = r.below(6);
            let base = match shape {
                0 => w.to_string(),
                1 => format!("{}*", w),
                2 => format!("*{}", w),
                3 => format!("*{}*", w),
                4 => format!("?{}", r.pick(&["a", "^a", "b$", "a.*b", "[ab]+$", "^.*ab", "ab.*$"])),
                _ => format!("\"{}\"", w),
            };
            ps.push(if r.chance(35) { format!("i{}", base) } else { base });
        }
        string_case(ctx, ps, &ldocs, &long_docs, &masks);
    }
}

fn string_case(ctx: &mut Ctx, pats: Vec<String>, docs: &[Yaml], hays: &[String], masks: &[u64]) {
    let v = if pats.len() == 1 { ys(&pats[0]) } else { Yaml::Sequence(pats.iter().map(|p| ys(p)).collect()) };
    let c = case(vec![("A".into(), map1("f", v)), ("condition".into(), ys("A"))], docs.to_vec(), masks.to_vec());
    let rels: Vec<Option<Vec<bool>>> = pats.iter().map(|p| hays.iter().map(|h| pattern_rel(p, h)).collect::<Option<Vec<bool>>>()).collect();
    let (ex, parsed) = run_rule_case(ctx, &c, false);
    let ry = rule_yaml(&c);
    let p = match parsed {
        Some(p) if p.load == "ok" => p,
        _ => {
            // a pattern that is not a string pattern, or an invalid regex
            return;
        }
    };
    if rels.iter().any(|r| r.is_none()) {
        return;
    }
    for m in &p.masks {
        for (j, h) in hays.iter().enumerate() {
            let want = rels.iter().any(|r| r.as_ref().unwrap()[j]);
            let got = m.res[j].0 == "T";
            ctx.nontrivial.insert(hash_str(&format!("{:?}{}", pats, h)));
            if want != got {
                ctx.violation(
                    "oracle",
                    &format!("patterns {:?} on string {:?} (mask {}): engine {} but the documented relation is {}", pats, h, m.mask, got, want),
                    &ex, &ry, true);
                return;
            }
        }
    }
    if ctx.samples.len() < 6 && pats.len() > 1 {
        ctx.sample(json!({"patterns": pats, "strings": hays.len(), "unoptimised": tri_of(&p, 0).join("")}));
    }
}

// ------------------------------------------------------------------------------------ C09

#[derive(Clone, Debug)]
enum NumV {
    I(i128),
    F(f64),
}

fn cmp_exact(a: &NumV, b: &NumV) -> Option<std::cmp::Ordering> {
    use std::cmp::Ordering::*;
    match (a, b) {
        (NumV::I(x), NumV::I(y)) => Some(x.cmp(y)),
        (NumV::F(x), NumV::F(y)) => x.partial_cmp(y),
        (NumV::I(x), NumV::F(y)) => {
            if y.is_nan() {
                return None;
            }
            if *y >= 1.7e38 {
                return Some(Less);
            }
            if *y <= -1.7e38 {
                return Some(Greater);
            }
            let t = y.trunc();
            let ti = t as i128;
            match x.cmp(&ti) {
                Equal => {
                    let frac = y - t;
                    if frac > 0.0 {
                        Some(Less)
                    } else if frac < 0.0 {
                        Some(Greater)
                    } else {
                        Some(Equal)
                    }
                }
                o => Some(o),
            }
        }
        (NumV::F(_), NumV::I(_)) => cmp_exact(b, a).map(|o| o.reverse()),
    }
}

fn holds(op: &str, ord: Option<std::cmp::Ordering>) -> bool {
    use std::cmp::Ordering::*;
    match (op, ord) {
        (_, None) => false,
        ("=", Some(o)) | ("==", Some(o)) => o == Equal,
        (">", Some(o)) => o == Greater,
        (">=", Some(o)) => o != Less,
        ("<", Some(o)) => o == Less,
        ("<=", Some(o)) => o != Greater,
        _ => false,
    }
}

fn field_num(y: &Yaml) -> Option<NumV> {
    match y {
        Yaml::Number(n) => {
            if n.is_u64() {
                Some(NumV::I(n.as_u64().unwrap() as i128))
            } else if n.is_i64() {
                Some(NumV::I(n.as_i64().unwrap() as i128))
            } else {
                Some(NumV::F(n.as_f64().unwrap()))
            }
        }
        _ => None,
    }
}

pub fn run_c09(ctx: &mut Ctx, _known: &Known) {
    ctx.exhaustive = true;
    crate::suites3::wide_numeric_matrix(ctx, "C09");
    crate::suites3::cast_cast_or_chains(ctx, "C09");
    let int_consts: Vec<&str> = vec!["-9223372036854775808", "-1", "0", "1", "5", "9223372036854775807"];
    let flt_consts: Vec<&str> = vec!["0.0", "-0.0", "0.5", "2.5", "-1.5", "1e300", "9223372036854775808.0", "1.0"];
    let mut field_vals: Vec<Yaml> = vec![
        Yaml::Number(i64::MIN.into()), Yaml::Number((-1i64).into()), Yaml::Number(0u64.into()), Yaml::Number(1u64.into()), Yaml::Number(5u64.into()), Yaml::Number(6u64.into()),
        Yaml::Number((i64::MAX as u64).into()), Yaml::Number(9223372036854775808u64.into()), Yaml::Number(u64::MAX.into()),
        Yaml::Number(0.0f64.into()), Yaml::Number((-0.0f64).into()), Yaml::Number(0.5f64.into()), Yaml::Number(2.5f64.into()), Yaml::Number((-1.5f64).into()),
        Yaml::Number(1e300f64.into()), Yaml::Number((-1e300f64).into()), Yaml::Number(f64::NAN.into()), Yaml::Number(f64::INFINITY.into()), Yaml::Number(f64::NEG_INFINITY.into()),
        Yaml::Number(9223372036854775807.0f64.into()), Yaml::Number(1.0f64.into()), Yaml::Number(4.5f64.into()), Yaml::Number(5.5f64.into()), Yaml::Number((-0.5f64).into()),
        ys("5"), ys("-1"), ys("+5"), ys(" 5"), ys("5.0"), ys("2.5"), ys("1e3"), ys("abc"), ys(""), ys("nan"), ys("inf"), ys("9223372036854775808"), ys("0x10"), ys("05"),
        // numeric text need not be canonical: zero padding and an explicit plus sign, any length
        ys("000000000000000000000005"), ys("+00000000000000000000001"), ys("-00000000000000000000001"), ys("0000000000000000000000000000000000000000"), ys("00000000009223372036854775807"), ys("0000000000000000000002.5"),
        Yaml::Bool(true), Yaml::Bool(false), Yaml::Null, Yaml::Sequence(vec![Yaml::Number(5u64.into())]), map1("k", Yaml::Number(5u64.into())),
    ];
    let n_rand = budget(ctx, 40, 2000);
    let mut r = Rng::new(ctx.seed);
    for _ in 0..n_rand {
        let x = r.next();
        field_vals.push(match r.below(3) {
            0 => Yaml::Number(x.into()),
            1 => Yaml::Number((x as i64).into()),
            _ => Yaml::Number(f64::from_bits(x).into()),
        });
    }
    let mut docs: Vec<Yaml> = field_vals.iter().map(|v| map1("f", v.clone())).collect();
    docs.push(Yaml::Mapping(Mapping::new())); // absent field
    let ops = ["=", ">", ">=", "<", "<="];
    let masks = vec![0u64, 15];
    // (1) pattern form on a plain key: `f: '>5'` and bare numbers
    for (consts, is_f) in [(&int_consts, false), (&flt_consts, true)] {
        for c in consts.iter() {
            let cv = if is_f { NumV::F(c.parse::<f64>().unwrap()) } else { NumV::I(c.parse::<i128>().unwrap()) };
            let mut per_op: Vec<(String, Vec<String>)> = vec![];
            for op in ops {
                let cs = case(vec![("A".into(), map1("f", ys(&format!("{}{}", op, c)))), ("condition".into(), ys("A"))], docs.clone(), masks.clone());
                let (ex, parsed) = run_rule_case(ctx, &cs, false);
                let ry = rule_yaml(&cs);
                let p = match parsed {
                    Some(p) if p.load == "ok" => p,
                    _ => continue,
                };
                let res = tri_of(&p, 0);
                for (j, fv) in field_vals.iter().enumerate() {
                    let got = res[j] == "T";
                    ctx.nontrivial.insert(hash_str(&format!("{}{}{:?}", op, c, fv)));
                    match field_num(fv) {
                        Some(fvn) => {
                            let truth = holds(op, cmp_exact(&fvn, &cv));
                            // soundness over the whole range: true only if the relation holds
                            if got && !truth {
                                ctx.violation("oracle", &format!("`f: '{}{}'` is true for f = {:?} although the relation does not hold", op, c, fv), &ex, &ry, true);
                            }
                            // completeness for the same numeric kind
                            let same_kind = matches!((&fvn, &cv), (NumV::I(_), NumV::I(_)) | (NumV::F(_), NumV::F(_)));
                            if same_kind && got != truth {
                                ctx.violation("oracle", &format!("`f: '{}{}'` gives {} for f = {:?}, the relation is {}", op, c, got, fv, truth), &ex, &ry, true);
                            }
                        }
                        None => {
                            if got {
                                ctx.violation("oracle", &format!("`f: '{}{}'` is true for the non-numeric value {:?}", op, c, fv), &ex, &ry, true);
                            }
                        }
                    }
                }
                // absent field is missing, never true
                if res.last().map(|s| s.as_str()) != Some("M") {
                    ctx.violation("oracle", &format!("`f: '{}{}'` on a document without f gives {:?}, expected missing", op, c, res.last()), &ex, &ry, true);
                }
                per_op.push((op.to_string(), res));
            }
            // trichotomy and unions for present non-NaN fields of the same kind
            if per_op.len() == 5 {
                let get = |o: &str| per_op.iter().find(|(n, _)| n == o).map(|(_, r)| r.clone()).unwrap();
                let (eq, gt, ge, lt, le) = (get("="), get(">"), get(">="), get("<"), get("<="));
                for (j, fv) in field_vals.iter().enumerate() {
                    if let Some(fvn) = field_num(fv) {
                        let same_kind = matches!((&fvn, &cv), (NumV::I(_), NumV::I(_)) | (NumV::F(_), NumV::F(_)));
                        let nan = matches!(fvn, NumV::F(x) if x.is_nan());
                        if same_kind && !nan {
                            let cnt = [&lt, &eq, &gt].iter().filter(|r| r[j] == "T").count();
                            let unions = (ge[j] == "T") == (gt[j] == "T" || eq[j] == "T") && (le[j] == "T") == (lt[j] == "T" || eq[j] == "T");
                            if cnt != 1 || !unions {
                                let dummy = ctx.exchange("tok s:");
                                ctx.violation("oracle", &format!("trichotomy/union fails for constant {} and f = {:?}: < {} = {} > {} >= {} <= {}", c, fv, lt[j], eq[j], gt[j], ge[j], le[j]), &dummy, "", true);
                            }
                        }
                    }
                }
            }
        }
    }
    // (1b) the cast written on the KEY: `flt(f): '>=c'` / `int(f): c` with integer constants up to the
    //      ends of the 64-bit range (not all of them are doubles). True only if the relation holds
    //      between the cast field value and the constant AS WRITTEN.
    {
        let big_consts = ["5", "9007199254740993", "4611686018427387905", "9223372036854775807", "-9223372036854775807", "-9007199254740993"];
        let mut vals: Vec<Yaml> = vec![
            Yaml::Number(5u64.into()), Yaml::Number(5.0f64.into()), ys("5"), ys("5.0"),
            Yaml::Number(9007199254740992u64.into()), Yaml::Number(9007199254740993u64.into()), Yaml::Number(9007199254740994u64.into()),
            Yaml::Number(9007199254740992.0f64.into()), ys("9007199254740992"), ys("9007199254740992.0"),
            Yaml::Number(4611686018427387904u64.into()), Yaml::Number(4611686018427387904.0f64.into()),
            Yaml::Number(9223372036854775807u64.into()), Yaml::Number(9223372036854775808u64.into()), Yaml::Number(9223372036854775808.0f64.into()),
            Yaml::Number(i64::MIN.into()), Yaml::Number((-9223372036854775808.0f64).into()), Yaml::Number((-9007199254740992i64).into()), Yaml::Number((-9007199254740992.0f64).into()),
            Yaml::Bool(true), ys("abc"),
        ];
        vals.extend(field_vals.iter().take(24).cloned());
        let kdocs: Vec<Yaml> = vals.iter().map(|v| map1("f", v.clone())).collect();
        // the field value after the cast, as an exact number (None: not convertible)
        let cast_val = |kind: &str, v: &Yaml| -> Option<NumV> {
            match (kind, v) {
                ("flt", Yaml::Number(n)) => n.as_f64().map(NumV::F).or_else(|| n.as_u64().map(|u| NumV::F(u as f64))),
                ("flt", Yaml::String(s)) => s.parse::<f64>().ok().map(NumV::F),
                ("flt", Yaml::Bool(b)) => Some(NumV::F(*b as u8 as f64)),
                ("int", Yaml::Number(n)) if n.is_u64() => { let u = n.as_u64().unwrap(); if u <= i64::MAX as u64 { Some(NumV::I(u as i128)) } else { None } }
                ("int", Yaml::Number(n)) if n.is_i64() => Some(NumV::I(n.as_i64().unwrap() as i128)),
                ("int", Yaml::Number(n)) => { let x = n.as_f64().unwrap().round(); if x.is_finite() && x >= -9223372036854775808.0 && x < 9223372036854775808.0 { Some(NumV::I(x as i128)) } else { None } }
                ("int", Yaml::String(s)) => s.parse::<i64>().ok().map(|v| NumV::I(v as i128)),
                ("int", Yaml::Bool(b)) => Some(NumV::I(*b as i128)),
                _ => None,
            }
        };
        for kind in ["flt", "int"] {
            for c in big_consts {
                let cv = NumV::I(c.parse::<i128>().unwrap());
                for op in ["", "=", ">", ">=", "<", "<="] {
                    let val = if op.is_empty() { Yaml::Number(if c.starts_with('-') { c.parse::<i64>().unwrap().into() } else { c.parse::<u64>().unwrap().into() }) } else { ys(&format!("{}{}", op, c)) };
                    let cs = case(vec![("A".into(), map1(&format!("{}(f)", kind), val)), ("condition".into(), ys("A"))], kdocs.clone(), masks.clone());
                    let (ex, parsed) = run_rule_case(ctx, &cs, false);
                    let ry = rule_yaml(&cs);
                    let p = match parsed {
                        Some(p) if p.load == "ok" => p,
                        _ => continue,
                    };
                    for mask in [0u64, 15] {
                        let res = tri_of(&p, mask);
                        for (j, fv) in vals.iter().enumerate() {
                            ctx.nontrivial.insert(hash_str(&format!("key {}{}{}{:?}", kind, op, c, fv)));
                            if res[j] != "T" {
                                continue;
                            }
                            let rel = if op.is_empty() { "=" } else { op };
                            let truth = match cast_val(kind, fv) {
                                Some(x) => holds(rel, cmp_exact(&x, &cv)),
                                None => false,
                            };
                            if !truth {
                                ctx.violation("oracle", &format!("`{}(f): {}{}` (mask {}) is true for f = {:?} although the relation does not hold for the cast value", kind, op, c, mask, fv), &ex, &ry, true);
                                break;
                            }
                        }
                    }
                }
            }
        }
    }
    // (1c) documents held in Rust integer types of every width and signedness (HashMap<String, T>):
    //      the relation is about the mathematical value, whatever the type
    {
        use std::collections::HashMap;
        macro_rules! typed {
            ($t:ty, $vals:expr, $out:expr) => {
                for v in $vals {
                    let mut hm: HashMap<String, $t> = HashMap::new();
                    hm.insert("f".to_string(), v as $t);
                    $out.push((stringify!($t), v as i128, Box::new(hm) as Box<dyn tau_engine::Document>));
                }
            };
        }
        let mut tdocs: Vec<(&str, i128, Box<dyn tau_engine::Document>)> = vec![];
        typed!(i8, [-128i64, -1, 0, 5, 127], tdocs);
        typed!(i16, [-32768i64, -1, 0, 5], tdocs);
        typed!(i32, [-2147483648i64, -1, 0, 5], tdocs);
        typed!(i64, [i64::MIN, -1, 0, 5, i64::MAX], tdocs);
        typed!(isize, [isize::MIN as i64, -5, -1, 0, 5, isize::MAX as i64], tdocs);
        typed!(u8, [0i64, 5, 255], tdocs);
        typed!(u16, [0i64, 5, 65535], tdocs);
        typed!(u32, [0i64, 5, 4294967295], tdocs);
        typed!(u64, [0i64, 5, i64::MAX], tdocs);
        typed!(usize, [0i64, 5, i64::MAX], tdocs);
        for (key, pat, rel, c) in [("f", ">0", ">", 0i128), ("f", ">=0", ">=", 0), ("f", "<0", "<", 0), ("f", "=-1", "=", -1), ("f", "<=-1", "<=", -1), ("f", "=5", "=", 5),
            ("int(f)", "<0", "<", 0), ("int(f)", ">=0", ">=", 0), ("f", ">-6", ">", -6), ("f", "<-4", "<", -4)] {
            for cond in ["A", "not A"] {
                let text = format!("detection:\n  A:\n    {}: '{}'\n  condition: {}\ntrue_positives: []\ntrue_negatives: []\n", key, pat, cond);
                let rule = match tau_engine::Rule::from_str(&text) {
                    Ok(r) => r,
                    Err(_) => continue,
                };
                let opt = rule.clone().optimise(crate::implside::opts(15));
                for (ty, v, d) in tdocs.iter() {
                    ctx.evaluations += 1;
                    ctx.nontrivial.insert(hash_str(&format!("typed{}{}{}{}{}", key, pat, cond, ty, v)));
                    let truth = holds(rel, cmp_exact(&NumV::I(*v), &NumV::I(c)));
                    let want = if cond == "A" { truth } else { !truth };
                    for (rn, rl) in [("unoptimised", &rule), ("optimised", &opt)] {
                        let got = rl.matches(d.as_ref());
                        if got != want {
                            let dummy = ctx.exchange("tok s:");
                            ctx.violation("oracle", &format!("{} rule `{}: '{}'` ({}) on f = {} held as {}: engine {}, the relation says {}", rn, key, pat, cond, v, ty, got, want), &dummy, &text, true);
                        }
                    }
                }
            }
        }
        // f32 / f64 fields: the relation is about the exact value of the float (an f32 widens exactly)
        {
            let fvals32: Vec<f32> = vec![0.1, 0.5, 1.1, -3.3, 16777216.0, 0.3, 2.5, f32::MAX, 1e-10];
            let fvals64: Vec<f64> = vec![0.1, 0.5, 1.1, -3.3, 0.3, 2.5, 1e300];
            let consts = ["0.1", "0.5", "1.1", "0.3", "2.5", "-3.3", "16777216.0", "340282346638528860000000000000000000000.0"];
            for c in consts {
                let cf: f64 = c.parse().unwrap();
                for (op, rel) in [("=", "="), (">", ">"), (">=", ">="), ("<", "<"), ("<=", "<=")] {
                    let text = format!("detection:\n  A:\n    f: '{}{}'\n  condition: A\ntrue_positives: []\ntrue_negatives: []\n", op, c);
                    let rule = match tau_engine::Rule::from_str(&text) { Ok(r) => r, Err(_) => continue };
                    for x in &fvals32 {
                        let mut hm: HashMap<String, f32> = HashMap::new();
                        hm.insert("f".into(), *x);
                        let want = holds(rel, (*x as f64).partial_cmp(&cf));
                        ctx.evaluations += 1;
                        ctx.nontrivial.insert(hash_str(&format!("f32{}{}{}", op, c, x)));
                        if rule.matches(&hm) != want {
                            let dummy = ctx.exchange("tok s:");
                            ctx.violation("oracle", &format!("`f: '{}{}'` on the f32 {:?} (exactly {:?}): engine {}, the relation says {}", op, c, x, *x as f64, !want, want), &dummy, &text, true);
                        }
                    }
                    for x in &fvals64 {
                        let mut hm: HashMap<String, f64> = HashMap::new();
                        hm.insert("f".into(), *x);
                        let want = holds(rel, x.partial_cmp(&cf));
                        ctx.evaluations += 1;
                        if rule.matches(&hm) != want {
                            let dummy = ctx.exchange("tok s:");
                            ctx.violation("oracle", &format!("`f: '{}{}'` on the f64 {:?}: engine {}, the relation says {}", op, c, x, !want, want), &dummy, &text, true);
                        }
                    }
                }
            }
        }
        // str(f) == str(g) compares the TEXTS of the two values: floats included
        {
            let fl = |x: f64| Yaml::Number(x.into());
            let vals: Vec<Yaml> = vec![fl(0.0), fl(-0.0), fl(f64::NAN), fl(f64::INFINITY), fl(1.5), fl(2.0), Yaml::Number(2u64.into()), ys("2"), ys("NaN"), ys("0"), ys("-0"), fl(1e21), Yaml::Bool(true), ys("true")];
            let mut pdocs: Vec<Yaml> = vec![];
            let mut texts: Vec<(Option<String>, Option<String>)> = vec![];
            let text_of = |v: &Yaml| -> Option<String> {
                match v {
                    Yaml::Number(n) if n.is_u64() => Some(n.as_u64().unwrap().to_string()),
                    Yaml::Number(n) if n.is_i64() => Some(n.as_i64().unwrap().to_string()),
                    Yaml::Number(n) => Some(n.as_f64().unwrap().to_string()),
                    Yaml::String(s) => Some(s.clone()),
                    Yaml::Bool(b) => Some(b.to_string()),
                    _ => None,
                }
            };
            for a in &vals {
                for b in &vals {
                    pdocs.push(mapn(vec![("f".into(), a.clone()), ("g".into(), b.clone())]));
                    texts.push((text_of(a), text_of(b)));
                }
            }
            for cond in ["str(f) == str(g)", "not str(f) == str(g)"] {
                let cs = case(vec![("A".into(), map1("zz", ys("x"))), ("condition".into(), ys(cond))], pdocs.clone(), masks.clone());
                let (ex, parsed) = run_rule_case(ctx, &cs, false);
                if let Some(p) = parsed {
                    if p.load == "ok" {
                        for mask in [0u64, 15] {
                            let res = tri_of(&p, mask);
                            for (j, (ta, tb)) in texts.iter().enumerate() {
                                ctx.nontrivial.insert(hash_str(&format!("streqf{}{}", cond, j)));
                                let eq = match (ta, tb) { (Some(x), Some(y)) => x == y, _ => false };
                                let want = if cond.starts_with("not") { !eq } else { eq };
                                if (res[j] == "T") != want {
                                    ctx.violation("oracle", &format!("`{}` (mask {}) on f = {:?}, g = {:?}: engine {}, the texts are {:?} and {:?}", cond, mask, ta, tb, res[j], ta, tb), &ex, &rule_yaml(&cs), true);
                                    break;
                                }
                            }
                        }
                    }
                }
            }
        }
        // str(f) of a typed integer is its decimal text
        for (pat, want_v) in [("-5", -5i128), ("5", 5), ("-1", -1), ("0", 0)] {
            let text = format!("detection:\n  A:\n    str(f): '{}'\n  condition: A\ntrue_positives: []\ntrue_negatives: []\n", pat);
            if let Ok(rule) = tau_engine::Rule::from_str(&text) {
                for (ty, v, d) in tdocs.iter() {
                    ctx.evaluations += 1;
                    let got = rule.matches(d.as_ref());
                    if got != (*v == want_v) {
                        let dummy = ctx.exchange("tok s:");
                        ctx.violation("oracle", &format!("`str(f): '{}'` on f = {} held as {}: engine {}", pat, v, ty, got), &dummy, &text, true);
                    }
                }
            }
        }
    }
    // (1d) a NUMBER written under a str() key is the pattern of its shortest decimal text (2.0 is
    //      "2"): the rule `str(f): 2.0` and the rule `str(f): '2'` give the same results
    {
        let fvals: Vec<Yaml> = vec![Yaml::Number(2.0f64.into()), Yaml::Number(2u64.into()), ys("2"), ys("2.0"), Yaml::Number(100.0f64.into()), ys("100"), Yaml::Number(2.5f64.into()), ys("2.5"),
            Yaml::Number(1e21f64.into()), ys("1000000000000000000000"), ys("1e21"), Yaml::Number((-0.0f64).into()), ys("-0"), ys("0"), Yaml::Number(0u64.into()), Yaml::Bool(true), ys("true")];
        let sdocs: Vec<Yaml> = fvals.iter().map(|v| map1("f", v.clone())).collect();
        for x in [2.0f64, 100.0, 2.5, 1e21, -0.0, 0.5, 1e-7, 123456789.0] {
            let as_text = format!("{}", x);
            let mut results: Vec<Vec<String>> = vec![];
            for idv in [map1("str(f)", Yaml::Number(x.into())), map1("str(f)", ys(&format!("\"{}\"", as_text))),
                        map1("str(f)", Yaml::Sequence(vec![Yaml::Number(x.into()), ys("zq")])), map1("str(f)", Yaml::Sequence(vec![ys(&format!("\"{}\"", as_text)), ys("zq")]))] {
                let cs = case(vec![("A".into(), idv), ("condition".into(), ys("A"))], sdocs.clone(), masks.clone());
                let (_ex, parsed) = run_rule_case(ctx, &cs, false);
                if let Some(p) = parsed {
                    if p.load == "ok" {
                        results.push(tri_of(&p, 0));
                        ctx.nontrivial.insert(hash_str(&format!("strnum{}{}", x, results.len())));
                    }
                }
            }
            if results.len() == 4 && (results[0] != results[1] || results[2] != results[3]) {
                let dummy = ctx.exchange("tok s:");
                ctx.violation("oracle", &format!("`str(f): {:?}` (a number) and `str(f): '\"{}\"'` (its text) give different results: {:?} vs {:?}", x, as_text, results[0], results[1]), &dummy, "", true);
            }
        }
    }
    // (1e) a list of numbers matches exactly its members (repeats and gaps included), under a plain
    //      key, a cast key and the quantifiers, plain and with every optimisation switch family
    {
        let lists: Vec<Vec<i64>> = vec![vec![8080, 8080, 8082], vec![-1, 1, -1], vec![1, 3, 3], vec![1, 2, 3], vec![5, 4, 3, 2], vec![0, 2], vec![7, 7, 7], vec![1, 2, 2, 4, 5], vec![10, 11, 12, 14]];
        for l in &lists {
            let lo = *l.iter().min().unwrap() - 1;
            let hi = *l.iter().max().unwrap() + 1;
            let vals: Vec<i64> = (lo..=hi).collect();
            let ldocs: Vec<Yaml> = vals.iter().map(|v| map1("f", Yaml::Number((*v).into()))).chain(vals.iter().map(|v| map1("f", ys(&v.to_string())))).collect();
            let seq = Yaml::Sequence(l.iter().map(|v| Yaml::Number((*v).into())).collect());
            for (key, kind) in [("f", "plain"), ("int(f)", "int"), ("of(f, 1)", "of1"), ("all(f)", "all"), ("of(f, 2)", "of2")] {
                let cs = case(vec![("A".into(), map1(key, seq.clone())), ("condition".into(), ys("A"))], ldocs.clone(), vec![0, 15, 4, 5, 12]);
                let (ex, parsed) = run_rule_case(ctx, &cs, false);
                let p = match parsed {
                    Some(p) if p.load == "ok" => p,
                    _ => continue,
                };
                let distinct: std::collections::BTreeSet<i64> = l.iter().cloned().collect();
                for m in &p.masks {
                    for (j, d) in ldocs.iter().enumerate() {
                        let (v, is_str) = if j < vals.len() { (vals[j], false) } else { (vals[j - vals.len()], true) };
                        let _ = d;
                        // a numeric member matches a number equal to it; a string only through int()
                        let hits = if is_str && kind != "int" { 0 } else { l.iter().filter(|x| **x == v).count() };
                        let want = match kind {
                            "plain" | "int" | "of1" => hits >= 1,
                            "all" => hits == l.len(),
                            _ => hits >= 2,
                        };
                        let _ = &distinct;
                        ctx.nontrivial.insert(hash_str(&format!("intlist{:?}{}{}", l, key, j)));
                        if (m.res[j].0 == "T") != want {
                            ctx.violation("oracle", &format!("`{}: {:?}` (mask {}) on f = {}{}: engine {}, the list says {}", key, l, m.mask, v, if is_str { " (a string)" } else { "" }, m.res[j].0, want), &ex, &rule_yaml(&cs), true);
                            break;
                        }
                    }
                }
            }
        }
    }
    // (2) casts in the condition: int(f) op n, flt(f) op x, n op int(f)
    for op in ["==", ">", ">=", "<", "<="] {
        for c in ["0", "1", "5", "9223372036854775807", "-1"] {
            if c.starts_with('-') {
                continue; // negative literals cannot be written in a condition
            }
            let cs = case(vec![("A".into(), map1("zz", ys("x"))), ("condition".into(), ys(&format!("int(f) {} {}", op, c)))], docs.clone(), masks.clone());
            let (ex, parsed) = run_rule_case(ctx, &cs, false);
            let ry = rule_yaml(&cs);
            let p = match parsed {
                Some(p) if p.load == "ok" => p,
                _ => continue,
            };
            let res = tri_of(&p, 0);
            let cv = NumV::I(c.parse::<i128>().unwrap());
            for (j, fv) in field_vals.iter().enumerate() {
                let got = res[j] == "T";
                let casted: Option<i128> = match fv {
                    Yaml::Bool(b) => Some(*b as i128),
                    Yaml::Number(n) if n.is_u64() => { let u = n.as_u64().unwrap(); if u <= i64::MAX as u64 { Some(u as i128) } else { None } }
                    Yaml::Number(n) if n.is_i64() => Some(n.as_i64().unwrap() as i128),
                    Yaml::Number(n) => {
                        let x = n.as_f64().unwrap().round();
                        if x.is_finite() && x >= -9223372036854775808.0 && x < 9223372036854775808.0 { Some(x as i128) } else { None }
                    }
                    Yaml::String(s) => s.parse::<i64>().ok().map(|v| v as i128),
                    _ => None,
                };
                let want = match casted {
                    Some(v) => holds(op, cmp_exact(&NumV::I(v), &cv)),
                    None => false,
                };
                ctx.nontrivial.insert(hash_str(&format!("int{}{}{:?}", op, c, fv)));
                if got != want {
                    ctx.violation("oracle", &format!("`int(f) {} {}` gives {} for f = {:?}, expected {}", op, c, got, fv, want), &ex, &ry, true);
                }
            }
        }
        // the literal written on the left: `c op int(f)` is the mirror image of `int(f) op' c`
        for c in ["0", "1", "5", "9223372036854775807"] {
            let cs = case(vec![("A".into(), map1("zz", ys("x"))), ("condition".into(), ys(&format!("{} {} int(f)", c, op)))], docs.clone(), masks.clone());
            let (ex, parsed) = run_rule_case(ctx, &cs, false);
            let ry = rule_yaml(&cs);
            let p = match parsed {
                Some(p) if p.load == "ok" => p,
                _ => continue,
            };
            let res = tri_of(&p, 0);
            let cv = NumV::I(c.parse::<i128>().unwrap());
            for (j, fv) in field_vals.iter().enumerate() {
                let casted: Option<i128> = match fv {
                    Yaml::Bool(b) => Some(*b as i128),
                    Yaml::Number(n) if n.is_u64() => { let u = n.as_u64().unwrap(); if u <= i64::MAX as u64 { Some(u as i128) } else { None } }
                    Yaml::Number(n) if n.is_i64() => Some(n.as_i64().unwrap() as i128),
                    Yaml::Number(n) => {
                        let x = n.as_f64().unwrap().round();
                        if x.is_finite() && x >= -9223372036854775808.0 && x < 9223372036854775808.0 { Some(x as i128) } else { None }
                    }
                    Yaml::String(s) => s.parse::<i64>().ok().map(|v| v as i128),
                    _ => None,
                };
                let want = match casted {
                    Some(v) => holds(op, cmp_exact(&cv, &NumV::I(v))),
                    None => false,
                };
                ctx.nontrivial.insert(hash_str(&format!("revint{}{}{:?}", op, c, fv)));
                if (res[j] == "T") != want {
                    ctx.violation("oracle", &format!("`{} {} int(f)` gives {} for f = {:?}, expected {}", c, op, res[j], fv, want), &ex, &ry, true);
                    break;
                }
            }
        }
        for c in ["0.5", "2.5", "1.0", "0.0"] {
            let cs = case(vec![("A".into(), map1("zz", ys("x"))), ("condition".into(), ys(&format!("flt(f) {} {}", op, c)))], docs.clone(), masks.clone());
            let (ex, parsed) = run_rule_case(ctx, &cs, false);
            let ry = rule_yaml(&cs);
            let p = match parsed {
                Some(p) if p.load == "ok" => p,
                _ => continue,
            };
            let res = tri_of(&p, 0);
            let cvf: f64 = c.parse().unwrap();
            for (j, fv) in field_vals.iter().enumerate() {
                let got = res[j] == "T";
                let casted: Option<f64> = match fv {
                    Yaml::Bool(b) => Some(if *b { 1.0 } else { 0.0 }),
                    Yaml::Number(n) if n.is_u64() => Some(n.as_u64().unwrap() as f64),
                    Yaml::Number(n) if n.is_i64() => Some(n.as_i64().unwrap() as f64),
                    Yaml::Number(n) => n.as_f64(),
                    Yaml::String(s) => s.parse::<f64>().ok(),
                    _ => None,
                };
                let want = match casted {
                    Some(v) => holds(op, v.partial_cmp(&cvf)),
                    None => false,
                };
                if got != want {
                    ctx.violation("oracle", &format!("`flt(f) {} {}` gives {} for f = {:?}, expected {}", op, c, got, fv, want), &ex, &ry, true);
                }
            }
        }
    }
    // (2n) the same comparisons under `not`, with the literal on either side, with NEGATIVE literals
    //      (if the grammar accepts one it must mean that number), plain and optimised: a cast that
    //      cannot convert makes the comparison FALSE (so its negation holds), an absent field makes
    //      it missing (so neither it nor its negation holds)
    {
        let mirror = |op: &str| -> &'static str { match op { ">" => "<", ">=" => "<=", "<" => ">", "<=" => ">=", _ => "==" } };
        let int_cast = |fv: &Yaml| -> Option<i128> {
            match fv {
                Yaml::Bool(b) => Some(*b as i128),
                Yaml::Number(n) if n.is_u64() => { let u = n.as_u64().unwrap(); if u <= i64::MAX as u64 { Some(u as i128) } else { None } }
                Yaml::Number(n) if n.is_i64() => Some(n.as_i64().unwrap() as i128),
                Yaml::Number(n) => {
                    let x = n.as_f64().unwrap().round();
                    if x.is_finite() && x >= -9223372036854775808.0 && x < 9223372036854775808.0 { Some(x as i128) } else { None }
                }
                Yaml::String(s) => s.parse::<i64>().ok().map(|v| v as i128),
                _ => None,
            }
        };
        let flt_cast = |fv: &Yaml| -> Option<f64> {
            match fv {
                Yaml::Bool(b) => Some(if *b { 1.0 } else { 0.0 }),
                Yaml::Number(n) if n.is_u64() => Some(n.as_u64().unwrap() as f64),
                Yaml::Number(n) if n.is_i64() => Some(n.as_i64().unwrap() as f64),
                Yaml::Number(n) => n.as_f64(),
                Yaml::String(s) => s.parse::<f64>().ok(),
                _ => None,
            }
        };
        let nmasks = vec![0u64, 15, 2, 3];
        for op in ["==", ">", ">=", "<", "<="] {
            for (kind, c) in [("int", "5"), ("int", "0"), ("int", "-1"), ("int", "-5"), ("flt", "2.5"), ("flt", "1.0"), ("flt", "-1.5"), ("flt", "-0.5"), ("flt", "0.0")] {
                for form in 0..4 {
                    let cond = match form {
                        0 => format!("{}(f) {} {}", kind, op, c),
                        1 => format!("not ({}(f) {} {})", kind, op, c),
                        2 => format!("{} {} {}(f)", c, mirror(op), kind),
                        _ => format!("not {}(f) {} {}", kind, op, c),
                    };
                    if form == 0 && !c.starts_with('-') {
                        continue; // block (2) above
                    }
                    let cs = case(vec![("A".into(), map1("zz", ys("x"))), ("condition".into(), ys(&cond))], docs.clone(), nmasks.clone());
                    let (ex, parsed) = run_rule_case(ctx, &cs, false);
                    let ry = rule_yaml(&cs);
                    let p = match parsed {
                        Some(p) if p.load == "ok" => p,
                        _ => continue,
                    };
                    'masks: for mask in &nmasks {
                        let res = tri_of(&p, *mask);
                        for (j, fv) in field_vals.iter().enumerate() {
                            let rel = if kind == "int" {
                                int_cast(fv).map(|v| holds(op, cmp_exact(&NumV::I(v), &NumV::I(c.parse::<i128>().unwrap())))).unwrap_or(false)
                            } else {
                                flt_cast(fv).map(|v| holds(op, v.partial_cmp(&c.parse::<f64>().unwrap()))).unwrap_or(false)
                            };
                            let want = if form == 1 || form == 3 { !rel } else { rel };
                            ctx.nontrivial.insert(hash_str(&format!("neg{}{:?}", cond, fv)));
                            if (res[j] == "T") != want {
                                ctx.violation("oracle", &format!("`{}` (mask {}) gives {} for f = {:?}, expected {}", cond, mask, res[j], fv, want), &ex, &ry, true);
                                break 'masks;
                            }
                        }
                        // the absent field: neither the comparison nor its negation holds
                        if res[field_vals.len()] == "T" {
                            ctx.violation("oracle", &format!("`{}` (mask {}) holds on a document without the field", cond, mask), &ex, &ry, true);
                            break 'masks;
                        }
                    }
                }
            }
        }
    }
    // (2c) a cast against a cast, alone and as a member of a disjunction that shares its left field
    //      with other members (what the matrix pass tabulates), plain and optimised
    {
        let icast = |fv: &Yaml| -> Option<i128> {
            match fv {
                Yaml::Bool(b) => Some(*b as i128),
                Yaml::Number(n) if n.is_u64() => { let u = n.as_u64().unwrap(); if u <= i64::MAX as u64 { Some(u as i128) } else { None } }
                Yaml::Number(n) if n.is_i64() => Some(n.as_i64().unwrap() as i128),
                Yaml::Number(n) => { let x = n.as_f64().unwrap().round(); if x.is_finite() && x >= -9223372036854775808.0 && x < 9223372036854775808.0 { Some(x as i128) } else { None } }
                Yaml::String(s) => s.parse::<i64>().ok().map(|v| v as i128),
                _ => None,
            }
        };
        let fcast = |fv: &Yaml| -> Option<f64> {
            match fv {
                Yaml::Bool(b) => Some(if *b { 1.0 } else { 0.0 }),
                Yaml::Number(n) if n.is_u64() => Some(n.as_u64().unwrap() as f64),
                Yaml::Number(n) if n.is_i64() => Some(n.as_i64().unwrap() as f64),
                Yaml::Number(n) => n.as_f64(),
                Yaml::String(s) => s.parse::<f64>().ok(),
                _ => None,
            }
        };
        let vals: Vec<Yaml> = vec![Yaml::Number(1u64.into()), Yaml::Number(7u64.into()), Yaml::Number(1000u64.into()), Yaml::Number((-3i64).into()), Yaml::Number(2.5f64.into()), ys("7"), ys("abc"), Yaml::Bool(true), Yaml::Null];
        let mut pdocs: Vec<(Yaml, Option<Yaml>, Option<Yaml>)> = vec![];
        for a in vals.iter().map(Some).chain(std::iter::once(None)) {
            for b in vals.iter().map(Some).chain(std::iter::once(None)) {
                let mut m = Mapping::new();
                if let Some(a) = a { m.insert(ys("f"), a.clone()); }
                if let Some(b) = b { m.insert(ys("g"), b.clone()); }
                pdocs.push((Yaml::Mapping(m), a.cloned(), b.cloned()));
            }
        }
        let only_docs: Vec<Yaml> = pdocs.iter().map(|d| d.0.clone()).collect();
        let cmasks = vec![0u64, 15, 10, 14, 11, 8];
        for kind in ["int", "flt"] {
            for op in ["<", "<=", ">", ">=", "=="] {
                for form in 0..4 {
                    let cmp = format!("{}(f) {} {}(g)", kind, op, kind);
                    let cond = match form {
                        0 => cmp.clone(),
                        1 => format!("{} or int(f) == 7 or B", cmp),
                        2 => format!("B or {} or int(f) == 7", cmp),
                        _ => format!("B or int(g) == 7 or {}", cmp),
                    };
                    let cs = case(vec![("B".into(), map1("f", Yaml::Number(1000u64.into()))), ("condition".into(), ys(&cond))], only_docs.clone(), cmasks.clone());
                    let (ex, parsed) = run_rule_case(ctx, &cs, false);
                    let ry = rule_yaml(&cs);
                    if ex.imp.contains("PANIC") {
                        ctx.violation("oracle", &format!("`{}` panics: {}", cond, trunc(&ex.imp, 200)), &ex, &ry, true);
                        continue;
                    }
                    let p = match parsed {
                        Some(p) if p.load == "ok" => p,
                        _ => continue,
                    };
                    'cm: for mask in &cmasks {
                        let res = tri_of(&p, *mask);
                        for (j, (_, a, b)) in pdocs.iter().enumerate() {
                            let rel = match (a, b) {
                                (Some(a), Some(b)) => if kind == "int" {
                                    match (icast(a), icast(b)) { (Some(x), Some(y)) => holds(op, cmp_exact(&NumV::I(x), &NumV::I(y))), _ => false }
                                } else {
                                    match (fcast(a), fcast(b)) { (Some(x), Some(y)) => holds(op, x.partial_cmp(&y)), _ => false }
                                },
                                _ => false,
                            };
                            let f7 = a.as_ref().and_then(|a| icast(a)) == Some(7);
                            let g7 = b.as_ref().and_then(|b| icast(b)) == Some(7);
                            let bb = a.as_ref().map(|a| *a == Yaml::Number(1000u64.into())).unwrap_or(false);
                            let want = match form { 0 => rel, 1 | 2 => rel || f7 || bb, _ => rel || g7 || bb };
                            ctx.nontrivial.insert(hash_str(&format!("castcast{}{}", cond, j)));
                            if (res[j] == "T") != want {
                                ctx.violation("oracle", &format!("`{}` (mask {}) gives {} for f = {:?}, g = {:?}, expected {}", cond, mask, res[j], a, b, want), &ex, &ry, true);
                                break 'cm;
                            }
                        }
                    }
                }
            }
        }
    }
    // (2d) the SAME field read plain and through str() in one disjunction, in both orders: a number
    //      matches its canonical decimal text under str() only — plain and optimised
    {
        let vals: Vec<Yaml> = vec![Yaml::Number(5u64.into()), Yaml::Number(50u64.into()), ys("5"), ys("administrator"), Yaml::Bool(true), Yaml::Number(2.5f64.into()), Yaml::Null];
        let ddocs: Vec<Yaml> = vals.iter().map(|v| map1("x", v.clone())).chain(std::iter::once(map1("y", ys("q")))).collect();
        let text_of = |v: &Yaml| -> Option<String> { match v { Yaml::Number(n) if n.is_u64() => Some(n.as_u64().unwrap().to_string()), Yaml::Number(n) => n.as_f64().map(|f| f.to_string()), Yaml::String(s) => Some(s.clone()), Yaml::Bool(b) => Some(b.to_string()), _ => None } };
        for (plain_pat, cast_pat) in [("administrator", "5"), ("adm*", "5*"), ("*5", "2.5"), ("5", "true"), ("i5", "5*")] {
            for order in 0..2 {
                let (a, b) = if order == 0 { (map1("x", ys(plain_pat)), map1("str(x)", ys(cast_pat))) } else { (map1("str(x)", ys(cast_pat)), map1("x", ys(plain_pat))) };
                for (det, label) in [
                    (vec![("A".to_string(), a.clone()), ("B".to_string(), b.clone()), ("C".to_string(), map1("y", ys("zz"))), ("condition".to_string(), ys("A or B or C"))], "A or B or C"),
                    (vec![("A".to_string(), Yaml::Sequence(vec![a.clone(), b.clone()])), ("condition".to_string(), ys("A"))], "sequence"),
                ] {
                    let cs = case(det, ddocs.clone(), vec![0, 15, 2, 3]);
                    let (ex, parsed) = run_rule_case(ctx, &cs, false);
                    let ry = rule_yaml(&cs);
                    let p = match parsed {
                        Some(p) if p.load == "ok" => p,
                        _ => continue,
                    };
                    'mk: for m in &p.masks {
                        for (j, v) in vals.iter().enumerate() {
                            let plain_hit = v.as_str().map(|t| crate::suites::pattern_rel(plain_pat, t) == Some(true)).unwrap_or(false);
                            let cast_hit = text_of(v).map(|t| crate::suites::pattern_rel(cast_pat, &t) == Some(true)).unwrap_or(false);
                            ctx.nontrivial.insert(hash_str(&format!("plaincast{}{}{}{}", plain_pat, cast_pat, order, j)));
                            if (m.res[j].0 == "T") != (plain_hit || cast_hit) {
                                ctx.violation("oracle", &format!("`x: {}` or `str(x): '{}'` ({}, order {}, mask {}) on x = {:?}: engine {}, plain hit {}, text hit {}", plain_pat, cast_pat, label, order, m.mask, v, m.res[j].0, plain_hit, cast_hit), &ex, &ry, true);
                                break 'mk;
                            }
                        }
                    }
                }
            }
        }
    }
    // (3) str(): the canonical decimal text
    let texts = ["5", "-1", "2.5", "true", "false", "1", "0.5", "18446744073709551615", "inf", "NaN", "1000", "0", "-0"];
    for t in texts {
        let cs = case(vec![("A".into(), map1("str(f)", ys(&format!("'{}'", t)))), ("condition".into(), ys("A"))], docs.clone(), masks.clone());
        let (ex, parsed) = run_rule_case(ctx, &cs, false);
        let ry = rule_yaml(&cs);
        let p = match parsed {
            Some(p) if p.load == "ok" => p,
            _ => continue,
        };
        let res = tri_of(&p, 0);
        for (j, fv) in field_vals.iter().enumerate() {
            fn text_of(fv: &Yaml) -> Option<String> {
                match fv {
                    Yaml::Bool(b) => Some(b.to_string()),
                    Yaml::Number(n) if n.is_u64() => Some(n.as_u64().unwrap().to_string()),
                    Yaml::Number(n) if n.is_i64() => Some(n.as_i64().unwrap().to_string()),
                    Yaml::Number(n) => Some(n.as_f64().unwrap().to_string()),
                    Yaml::String(s) => Some(s.clone()),
                    _ => None,
                }
            }
            // a string predicate on an array holds when some element satisfies it
            let want = match fv {
                Yaml::Sequence(xs) => xs.iter().any(|x| text_of(x).as_deref() == Some(t)),
                other => text_of(other).as_deref() == Some(t),
            };
            if (res[j] == "T") != want {
                ctx.violation("oracle", &format!("`str(f): '{}'` gives {} for f = {:?}", t, res[j], fv), &ex, &ry, true);
            }
        }
    }
    // (5) bare numbers written in the rule (a YAML number, also as list members), over the whole
    //     unsigned range: true only when the field equals the number that was written
    {
        let bare: Vec<Yaml> = vec![
            Yaml::Number(0u64.into()), Yaml::Number(5u64.into()), Yaml::Number((-1i64).into()), Yaml::Number(i64::MIN.into()),
            Yaml::Number((i64::MAX as u64).into()), Yaml::Number(9223372036854775808u64.into()), Yaml::Number(18446744073709551614u64.into()), Yaml::Number(u64::MAX.into()),
            Yaml::Number(2.5f64.into()), Yaml::Number(1e300f64.into()),
        ];
        for b in &bare {
            for (shape, v) in [("scalar", b.clone()), ("list member", Yaml::Sequence(vec![b.clone(), Yaml::Number(77u64.into())]))] {
                for key in ["f", "int(f)"] {
                    let cs = case(vec![("A".into(), map1(key, v.clone())), ("condition".into(), ys("A"))], docs.clone(), masks.clone());
                    let (ex, parsed) = run_rule_case(ctx, &cs, false);
                    let ry = rule_yaml(&cs);
                    let p = match parsed {
                        Some(p) if p.load == "ok" => p,
                        _ => continue,
                    };
                    let res = tri_of(&p, 0);
                    let cv = field_num(b).unwrap();
                    for (j, fv) in field_vals.iter().enumerate() {
                        let got = res[j] == "T";
                        ctx.nontrivial.insert(hash_str(&format!("bare{}{:?}{:?}{}", key, b, fv, shape)));
                        if key != "f" {
                            // under int() the documented conversions apply; only wrap-around is judged here
                            if got {
                                if let Some(NumV::I(x)) = field_num(fv) {
                                    if let NumV::I(c) = cv {
                                        if x != c && x != 77 {
                                            ctx.violation("oracle", &format!("`{}: {:?}` ({}) is true for f = {:?}: a different integer", key, b, shape, fv), &ex, &ry, true);
                                        }
                                    }
                                }
                            }
                            continue;
                        }
                        match field_num(fv) {
                            Some(fvn) => {
                                let eq = cmp_exact(&fvn, &cv) == Some(std::cmp::Ordering::Equal)
                                    || (shape == "list member" && cmp_exact(&fvn, &NumV::I(77)) == Some(std::cmp::Ordering::Equal));
                                if got && !eq {
                                    ctx.violation("oracle", &format!("`f: {:?}` ({}) is true for f = {:?} although the two numbers differ", b, shape, fv), &ex, &ry, true);
                                }
                            }
                            None => {
                                if got {
                                    ctx.violation("oracle", &format!("`f: {:?}` ({}) is true for the non-numeric value {:?}", b, shape, fv), &ex, &ry, true);
                                }
                            }
                        }
                    }
                }
            }
        }
    }
    // (6) the numeric value of a field does not depend on the document representation: the same
    //     documents as serde_json values give the verdicts of the YAML mappings
    {
        let rules: Vec<(String, Yaml)> = vec![
            ("f: '>1'".into(), map1("f", ys(">1"))), ("f: '>=9223372036854775808'".into(), map1("f", ys(">=9223372036854775807"))),
            ("f: '=1'".into(), map1("f", ys("=1"))), ("f: '<1'".into(), map1("f", ys("<1"))), ("f: '<=0.5'".into(), map1("f", ys("<=0.5"))),
            ("f: '>2.5'".into(), map1("f", ys(">2.5"))), ("int(f): 5".into(), map1("int(f)", Yaml::Number(5u64.into()))), ("flt(f): '>=0.5'".into(), map1("flt(f)", ys(">=0.5"))),
            ("f: 18446744073709551615".into(), map1("f", Yaml::Number(u64::MAX.into()))), ("str(f): '18446744073709551615'".into(), map1("str(f)", ys("'18446744073709551615'"))),
        ];
        for (name, idv) in rules {
            let text = serde_yaml::to_string(&crate::implside::rule_value(&case(vec![("A".into(), idv.clone()), ("condition".into(), ys("A"))], vec![], vec![0]))).unwrap_or_default();
            let rule = match tau_engine::Rule::from_str(&text) {
                Ok(r) => r,
                Err(_) => continue,
            };
            let opt = rule.clone().optimise(crate::implside::opts(15));
            for (j, d) in docs.iter().enumerate() {
                let (m, js) = match (d.as_mapping(), crate::suites2::json_of_yaml(d)) {
                    (Some(m), Some(js)) => (m, js),
                    _ => continue, // NaN / infinities have no JSON form
                };
                ctx.evaluations += 1;
                ctx.nontrivial.insert(hash_str(&format!("json{}{}", name, j)));
                for (label, r) in [("plain", &rule), ("optimised", &opt)] {
                    let a = r.matches(m);
                    let b = r.matches(&js);
                    if a != b {
                        let dummy = ctx.exchange("tok s:");
                        ctx.violation("oracle", &format!("{} rule `{}`: document {} gives {} as a YAML mapping and {} as a serde_json value", label, name, serde_yaml::to_string(d).unwrap_or_default().replace('\n', " "), a, b), &dummy, &text, true);
                    }
                }
            }
        }
    }
    // (7) str() on both sides of a comparison in the condition: equal canonical decimal texts,
    //     over the whole unsigned range
    {
        fn text_of2(fv: &Yaml) -> Option<String> {
            match fv {
                Yaml::Bool(b) => Some(b.to_string()),
                Yaml::Number(n) if n.is_u64() => Some(n.as_u64().unwrap().to_string()),
                Yaml::Number(n) if n.is_i64() => Some(n.as_i64().unwrap().to_string()),
                Yaml::Number(n) => Some(n.as_f64().unwrap().to_string()),
                Yaml::String(s) => Some(s.clone()),
                _ => None,
            }
        }
        let vals: Vec<Yaml> = vec![
            Yaml::Number(u64::MAX.into()), ys("18446744073709551615"), Yaml::Number(9223372036854775808u64.into()), ys("9223372036854775808"),
            Yaml::Number((i64::MAX as u64).into()), Yaml::Number(5u64.into()), ys("5"), Yaml::Number((-1i64).into()), ys("-1"), Yaml::Number(i64::MIN.into()),
            Yaml::Bool(true), ys("true"), Yaml::Number(2.5f64.into()), ys("2.5"), Yaml::Null, Yaml::Sequence(vec![ys("5")]),
        ];
        let mut docs7: Vec<Yaml> = vec![];
        let mut pairs: Vec<(Yaml, Yaml)> = vec![];
        for a in &vals {
            for b in &vals {
                docs7.push(mapn(vec![("f".into(), a.clone()), ("g".into(), b.clone())]));
                pairs.push((a.clone(), b.clone()));
            }
        }
        let cs = case(vec![("A".into(), map1("zz", ys("x"))), ("condition".into(), ys("str(f) == str(g)"))], docs7.clone(), masks.clone());
        let (ex, parsed) = run_rule_case(ctx, &cs, false);
        let ry = rule_yaml(&cs);
        if let Some(p) = parsed {
            if p.load == "ok" {
                for m in &p.masks {
                    for (j, (a, b)) in pairs.iter().enumerate() {
                        let want = match (text_of2(a), text_of2(b)) {
                            (Some(x), Some(y)) => x == y,
                            _ => false,
                        };
                        ctx.nontrivial.insert(hash_str(&format!("streq{:?}{:?}", a, b)));
                        if (m.res[j].0 == "T") != want {
                            ctx.violation("oracle", &format!("`str(f) == str(g)` (mask {}) gives {} for f = {:?}, g = {:?}; the canonical texts are {}", m.mask, m.res[j].0, a, b, if want { "equal" } else { "different" }), &ex, &ry, true);
                            break;
                        }
                    }
                }
            }
        }
    }
    // (4) the same casts inside shapes the optimiser rewrites (or-of-and sharing a field: matrix rows)
    let cast_vals: Vec<Yaml> = vec![ys("443"), ys("80"), ys("x"), Yaml::Number(443u64.into()), Yaml::Number(443.0f64.into()), Yaml::Number(442.6f64.into()), Yaml::Bool(true), Yaml::Number(1u64.into()), ys("0.75"), Yaml::Number(0.75f64.into()), Yaml::Null];
    let mut docs4: Vec<Yaml> = vec![];
    for v in &cast_vals {
        for g in ["tcp", "udp", "x"] {
            docs4.push(mapn(vec![("f".into(), v.clone()), ("g".into(), ys(g))]));
        }
    }
    for (k1, c1, k2, c2) in [("int(f)", Yaml::Number(443i64.into()), "int(f)", Yaml::Number(80i64.into())), ("flt(f)", ys(">=0.5"), "int(f)", Yaml::Number(1i64.into())), ("int(f)", ys(">=80"), "flt(f)", Yaml::Number(0.75f64.into()))] {
        let rows = Yaml::Sequence(vec![mapn(vec![(k1.into(), c1.clone()), ("g".into(), ys("tcp"))]), mapn(vec![(k2.into(), c2.clone()), ("g".into(), ys("udp"))])]);
        let cs = case(vec![("X".into(), rows), ("condition".into(), ys("X"))], docs4.clone(), (0..16).collect());
        let (ex, parsed) = run_rule_case(ctx, &cs, false);
        let ry = rule_yaml(&cs);
        if let Some(p) = parsed {
            if p.load != "ok" {
                continue;
            }
            let num = |v: &Yaml, key: &str| -> Option<f64> {
                let int = key == "int(f)";
                match v {
                    Yaml::Bool(b) => Some(*b as i32 as f64),
                    Yaml::Number(n) => { let x = n.as_f64().unwrap(); Some(if int { x.round() } else { x }) }
                    Yaml::String(s) => if int { s.parse::<i64>().ok().map(|x| x as f64) } else { s.parse::<f64>().ok() },
                    _ => None,
                }
            };
            let holds1 = |v: &Yaml, key: &str, c: &Yaml| -> bool {
                match (num(v, key), c) {
                    (Some(x), Yaml::Number(n)) => x == n.as_f64().unwrap(),
                    (Some(x), Yaml::String(s)) => x >= s[2..].parse::<f64>().unwrap(),
                    _ => false,
                }
            };
            for m in &p.masks {
                for (j, d) in docs4.iter().enumerate() {
                    let dm = d.as_mapping().unwrap();
                    let fv = dm.get(ys("f")).unwrap();
                    let gv = dm.get(ys("g")).unwrap().as_str().unwrap();
                    let want = (holds1(fv, k1, &c1) && gv == "tcp") || (holds1(fv, k2, &c2) && gv == "udp");
                    ctx.nontrivial.insert(hash_str(&format!("c4{}{}{}", k1, k2, j)));
                    if (m.res[j].0 == "T") != want {
                        ctx.violation("oracle", &format!("casts inside an or-of-and (mask {}): document {} gives {} expected {}", m.mask, serde_yaml::to_string(d).unwrap_or_default().replace('\n', " "), m.res[j].0, want), &ex, &ry, true);
                        break;
                    }
                }
            }
        }
    }
    if ctx.samples.len() < 6 {
        ctx.sample(json!({"operators": ops, "int_constants": int_consts, "float_constants": flt_consts, "field_values": field_vals.len()}));
    }
}

// ------------------------------------------------------------------------------------ C10

fn resolve(doc: &Yaml, path: &[(String, Option<usize>)]) -> Option<Yaml> {
    let mut cur = doc.clone();
    for (name, idx) in path {
        let m = cur.as_mapping()?;
        let v = m.get(Yaml::String(name.clone()))?.clone();
        cur = match idx {
            Some(i) => v.as_sequence()?.get(*i)?.clone(),
            None => v,
        };
    }
    Some(cur)
}

fn render(path: &[(String, Option<usize>)]) -> String {
    path.iter().map(|(n, i)| match i { Some(i) => format!("{}[{}]", n, i), None => n.clone() }).collect::<Vec<_>>().join(".")
}

fn small_values(depth: usize) -> Vec<Yaml> {
    let mut out = vec![Yaml::Number(1u64.into()), ys("s"), Yaml::Null, Yaml::Sequence(vec![]), Yaml::Mapping(Mapping::new())];
    if depth > 0 {
        let inner = small_values(depth - 1);
        for v in inner.iter().take(4) {
            out.push(map1("a", v.clone()));
            out.push(map1("b", v.clone()));
            out.push(Yaml::Sequence(vec![v.clone()]));
            out.push(Yaml::Sequence(vec![ys("z"), v.clone()]));
        }
        // two keys
        out.push(mapn(vec![("a".into(), inner[0].clone()), ("b".into(), inner[1].clone())]));
    }
    out
}

pub fn run_c10(ctx: &mut Ctx, _known: &Known) {
    ctx.exhaustive = true;
    // the recorded finding of this property, on its recorded witness: `f: {all(k): ['a*', '?b$']}` over
    // an array of objects is true for [{k: ax}, {k: zb}] although NO element satisfies the block. It
    // counts as known only while the faithful model reproduces the reply; the two other documents
    // of the witness (one element that satisfies both members; an object that does not) must be right.
    for (name, c) in corpus_cases() {
        if name != "nested_all_split" {
            continue;
        }
        let (ex, parsed) = run_rule_case(ctx, &c, false);
        if let Some(p) = parsed {
            if p.load == "ok" {
                let got: Vec<bool> = tri_of(&p, 0).iter().map(|t| t == "T").collect();
                let want = [false, true, false];
                for j in 0..got.len().min(3) {
                    if got[j] != want[j] {
                        if j == 0 && ex.agree && ex.supported && _known.by_witness("C10", "nested_all_split").is_some() {
                            *ctx.known_hits.entry("KF-C10-nested-all".into()).or_insert(0) += 1;
                        } else {
                            ctx.violation("oracle", &format!("nested all()-block over an array, document #{}: engine {}, 'some element satisfies the block' gives {}", j, got[j], want[j]), &ex, &rule_yaml(&c), true);
                        }
                    }
                }
            }
        }
    }
    crate::suites3::rows_field_twice(ctx, "C10");
    crate::suites3::null_members_missing_path(ctx, "C10");
    let depth = if ctx.tier == "thorough" { 3 } else { 2 };
    // documents: {a: V, b: W} over small shapes
    let vals = small_values(depth);
    let mut docs: Vec<Yaml> = vec![];
    for v in &vals {
        docs.push(mapn(vec![("a".into(), v.clone()), ("b".into(), Yaml::Number(7u64.into()))]));
    }
    docs.push(Yaml::Mapping(Mapping::new()));
    // paths up to depth 4 over names {a,b} with optional index 0/1
    let mut steps: Vec<(String, Option<usize>)> = vec![];
    for n in ["a", "b"] {
        steps.push((n.to_string(), None));
        steps.push((n.to_string(), Some(0)));
        steps.push((n.to_string(), Some(1)));
    }
    let maxd = if ctx.tier == "thorough" { 4 } else { 3 };
    let mut paths: Vec<Vec<(String, Option<usize>)>> = vec![vec![]];
    let mut all_paths = vec![];
    for _ in 0..maxd {
        let mut next = vec![];
        for p in &paths {
            for s in &steps {
                let mut q = p.clone();
                q.push(s.clone());
                next.push(q);
            }
        }
        all_paths.extend(next.iter().cloned());
        paths = next;
    }
    for (pi, path) in all_paths.iter().enumerate() {
        let key = render(path);
        for (di, d) in docs.iter().enumerate() {
            if ctx.tier != "thorough" && (pi * 31 + di) % 3 != 0 && path.len() > 2 {
                continue;
            }
            let line = format!("find {} {}", sx::doc_sx(d), sx::enc(&key));
            let ex = ctx.exchange(&line);
            ctx.check_agree(&ex, &key);
            let want = match resolve(d, path) {
                Some(v) => value_repr(&v),
                None => "none".to_string(),
            };
            ctx.nontrivial.insert(hash_str(&line));
            if ex.imp != want {
                ctx.violation("oracle", &format!("find({:?}) on {} gives {} but the addressed value is {}", key, serde_yaml::to_string(d).unwrap_or_default().replace('\n', " "), ex.imp, want), &ex, &key, true);
            }
        }
    }
    // DEEP paths (up to 12 steps): every step is walked, none is looked up as the literal rest of the
    // path — each level also holds keys NAMED like every rest of the path
    {
        let n = 12usize;
        let mut level: Yaml = Yaml::Sequence(vec![ys("leaf0"), map1("z", ys("leaf1"))]);
        for i in (0..n).rev() {
            let mut m = Mapping::new();
            m.insert(ys(&format!("c{}", i)), level.clone());
            for e in (i + 1)..n {
                let lit: Vec<String> = (i..=e).map(|j| format!("c{}", j)).collect();
                m.insert(ys(&lit.join(".")), ys(&format!("literal-{}-{}", i, e)));
            }
            m.insert(ys(&format!("c{}[0]", i)), ys("literal-index"));
            level = Yaml::Mapping(m);
        }
        let deep_doc = level;
        for len in 1..=n {
            for tail in 0..4 {
                let mut path: Vec<(String, Option<usize>)> = (0..len).map(|j| (format!("c{}", j), None)).collect();
                match tail {
                    1 => { path[len - 1].1 = Some(0); }
                    2 => { path[len - 1].1 = Some(1); path.push(("z".into(), None)); }
                    3 => { path.push(("nope".into(), None)); }
                    _ => {}
                }
                let key = render(&path);
                let line = format!("find {} {}", sx::doc_sx(&deep_doc), sx::enc(&key));
                let ex = ctx.exchange(&line);
                ctx.check_agree(&ex, &key);
                let want = match resolve(&deep_doc, &path) {
                    Some(v) => value_repr(&v),
                    None => "none".to_string(),
                };
                ctx.nontrivial.insert(hash_str(&line));
                if ex.imp != want {
                    ctx.violation("oracle", &format!("find({:?}) on a document nested {} levels deep gives {} but the addressed value is {}", key, n, trunc(&ex.imp, 200), trunc(&want, 200)), &ex, &key, true);
                }
            }
        }
        // the same paths as rule keys, against the nested-mapping spelling of the rule
        for len in [2usize, 7, 8, 9, 10, 12] {
            let segs: Vec<String> = (0..len).map(|j| format!("c{}", j)).collect();
            let dotted = map1(&format!("{}[0]", segs.join(".")), ys("leaf0"));
            let mut nested: Yaml = map1(&format!("{}[0]", segs[len - 1]), ys("leaf0"));
            for j in (0..len - 1).rev() {
                nested = map1(&segs[j], nested);
            }
            let mut verdicts: Vec<Vec<Vec<bool>>> = vec![];
            let mut last = None;
            for body in [dotted, nested] {
                let c = case(vec![("A".into(), body), ("condition".into(), ys("A"))], vec![deep_doc.clone()], vec![0, 15]);
                let (ex, parsed) = run_rule_case(ctx, &c, false);
                if let Some(p) = parsed {
                    if p.load == "ok" {
                        verdicts.push([0u64, 15].iter().map(|m| tri_of(&p, *m).iter().map(|t| t == "T").collect()).collect());
                        last = Some((ex, rule_yaml(&c)));
                    }
                }
            }
            if let Some((ex, ry)) = last {
                let want = len == n; // the array sits under the last of the 12 names only
                if verdicts.iter().any(|v| v.iter().any(|m| m[0] != want)) {
                    ctx.violation("oracle", &format!("a path of {} steps ending in [0]: dotted and nested spellings give {:?}, the addressed value {} leaf0", len, verdicts, if want { "is" } else { "is not" }), &ex, &ry, true);
                }
            }
        }
    }
    // YAML documents may hold keys that are NOT strings (1:, true:, 2.5:, ~:): a path segment names
    // a STRING key, never the text of another kind of key — in matches() and in validate()
    {
        let texts = [
            "{a: {1: x}}", "{a: {'1': x}}", "{a: {1: y, '1': x}}", "{a: {1: x, '1': y}}", "{1: x}", "{'1': x}", "{a: {true: x}}", "{a: {'true': x}}",
            "{a: {2.5: x}}", "{a: {'2': {'5': x}}}", "{a: {~: x}}", "{a: {'null': x, '~': x}}", "{a: {[1]: x}}", "{true: x, 1: x, 2.5: x, ~: x}", "{a: [{1: x}]}", "{a: {1: {b: x}}}", "{a: {'1': {b: x}}}",
        ];
        let docs: Vec<Yaml> = texts.iter().filter_map(|t| serde_yaml::from_str::<Yaml>(t).ok()).collect();
        for key in ["a.1", "'1'", "a.true", "a.2.5", "a.null", "a.~", "'true'", "a.1.b", "a[0].1", "'2.5'"] {
            let bare = key.trim_matches('\'');
            let path: Vec<(String, Option<usize>)> = bare.split('.').map(|seg| match seg.strip_suffix("[0]") { Some(n) => (n.to_string(), Some(0)), None => (seg.to_string(), None) }).collect();
            let text = format!("detection:\n  A:\n    {}: x\n  condition: A\ntrue_positives: []\ntrue_negatives: []\n", key);
            let rule = match tau_engine::Rule::from_str(&text) { Ok(r) => r, Err(_) => continue };
            for (d, t) in docs.iter().zip(texts.iter()) {
                let m = match d.as_mapping() { Some(m) => m, None => continue };
                let want = resolve(d, &path).map(|v| v == ys("x")).unwrap_or(false);
                ctx.evaluations += 1;
                ctx.nontrivial.insert(hash_str(&format!("nonstring{}{}", key, t)));
                for mask in [0u64, 15] {
                    let rl = if mask == 0 { rule.clone() } else { rule.clone().optimise(crate::implside::opts(mask)) };
                    let got = rl.matches(m);
                    // the same document as an example of the rule
                    let mut as_example = rl.clone();
                    if want { as_example.true_positives.push(d.clone()); } else { as_example.true_negatives.push(d.clone()); }
                    let valid = as_example.validate().is_ok();
                    if got != want || !valid {
                        let dummy = ctx.exchange("tok s:");
                        ctx.violation("oracle", &format!("rule `{}: x` on the YAML document {} (mask {}): matches() = {}, validate() with it as an example {}; the string-keyed path {} x", key, t, mask, got, if valid { "passes" } else { "fails" }, if want { "holds" } else { "does not hold" }), &dummy, &text, true);
                        break;
                    }
                }
            }
        }
    }
    // WIDE matrices: an or-group over more than 128 distinct paths (one of them used twice, so that
    // the matrix pass builds a table); a document is matched through the column of ITS field
    for n in [129usize, 150, 200, 260] {
        let mut rows: Vec<Yaml> = (0..n).map(|i| map1(&format!("ev.f{:03}", i), Yaml::Number(1u64.into()))).collect();
        rows.push(mapn(vec![("ev.f000".into(), Yaml::Number(2u64.into())), ("ev.g".into(), Yaml::Number(2u64.into()))]));
        let mk = |kvs: &[(usize, u64)]| -> Yaml {
            let mut m = Mapping::new();
            for (i, v) in kvs { m.insert(ys(&format!("f{:03}", i)), Yaml::Number((*v).into())); }
            map1("ev", Yaml::Mapping(m))
        };
        let hi = n - 1;
        let wdocs: Vec<(Yaml, bool)> = vec![
            (mk(&[(hi, 1)]), true), (mk(&[(128, 1)]), true), (mk(&[(128, 7)]), false), (mk(&[(128, 7), (if hi > 128 { hi.min(195) } else { 127 }, 1)]), true),
            (mk(&[(5, 1)]), true), (mk(&[(5, 3), (127, 1)]), true), (mk(&[(hi, 3)]), false), (mk(&[]), false),
        ];
        let c = case(vec![("X".into(), Yaml::Sequence(rows)), ("condition".into(), ys("X"))], wdocs.iter().map(|d| d.0.clone()).collect(), vec![0, 8, 15]);
        let (ex, parsed) = run_rule_case(ctx, &c, false);
        if let Some(p) = parsed {
            if p.load == "ok" {
                ctx.nontrivial.insert(hash_str(&format!("wide{}", n)));
                'wm: for mask in [0u64, 8, 15] {
                    let res = tri_of(&p, mask);
                    for (j, (_, want)) in wdocs.iter().enumerate() {
                        if (res[j] == "T") != *want {
                            ctx.violation("oracle", &format!("an or-group over {} paths (mask {}): document {} gives {}, expected {}", n + 1, mask, j, res[j], want), &ex, &trunc(&rule_yaml(&c), 1500), true);
                            break 'wm;
                        }
                    }
                }
            }
        } else if ex.imp.contains("PANIC") {
            ctx.violation("oracle", &format!("an or-group over {} paths panics: {}", n + 1, trunc(&ex.imp, 200)), &ex, &trunc(&rule_yaml(&c), 1500), true);
        }
    }
    // top-level fields whose NAME looks like a path: a path is still resolved step by step, in every
    // document representation (YAML mapping through the protocol, serde_json value, hand-written Object)
    {
        let lit_docs: Vec<Yaml> = vec![
            mapn(vec![("a.b".into(), ys("flat")), ("a".into(), map1("b", ys("deep")))]),
            mapn(vec![("a.b".into(), ys("flat"))]),
            mapn(vec![("a[0]".into(), ys("flat")), ("a".into(), Yaml::Sequence(vec![ys("zero")]))]),
            mapn(vec![("a[1]".into(), ys("flat")), ("a".into(), Yaml::Sequence(vec![ys("zero")]))]),
            mapn(vec![("a.b.c".into(), ys("flat")), ("a".into(), map1("b", map1("c", ys("deep"))))]),
            mapn(vec![("a.b".into(), map1("c", ys("flat"))), ("a".into(), Yaml::Number(1u64.into()))]),
            // a plain segment made of digits is a KEY, an indexed segment is an ARRAY index
            map1("a", Yaml::Sequence(vec![ys("zero"), ys("one")])),
            map1("a", mapn(vec![("0".into(), ys("key0")), ("1".into(), ys("key1"))])),
            map1("a", map1("b", Yaml::Sequence(vec![map1("c", ys("deep"))]))),
            map1("a", map1("b", map1("0", map1("c", ys("deep"))))),
            map1("a", Yaml::Sequence(vec![Yaml::Sequence(vec![ys("in")]), map1("0", ys("k"))])),
            // keys are compared exactly: `A` is not `a`, `B` not `b` (in every representation)
            map1("A", map1("B", ys("deep"))),
            map1("a", mapn(vec![("B".into(), ys("deep")), ("C".into(), Yaml::Sequence(vec![ys("zero")]))])),
            mapn(vec![("A".into(), map1("b", ys("upper"))), ("a".into(), map1("B", ys("deep")))]),
        ];
        let lit_paths: Vec<Vec<(String, Option<usize>)>> = vec![
            vec![("a".into(), None), ("b".into(), None)],
            vec![("a".into(), Some(0))],
            vec![("a".into(), Some(1))],
            vec![("a".into(), None), ("b".into(), None), ("c".into(), None)],
            vec![("a".into(), None)],
            vec![("a".into(), None), ("0".into(), None)],
            vec![("a".into(), None), ("1".into(), None)],
            vec![("a".into(), None), ("b".into(), None), ("0".into(), None), ("c".into(), None)],
            vec![("a".into(), None), ("b".into(), Some(0)), ("c".into(), None)],
            vec![("a".into(), Some(1)), ("0".into(), None)],
            vec![("a".into(), Some(0)), ("0".into(), None)],
            vec![("A".into(), None), ("B".into(), None)],
            vec![("A".into(), None), ("b".into(), None)],
            vec![("a".into(), None), ("B".into(), None)],
            vec![("a".into(), None), ("c".into(), Some(0))],
            vec![("a".into(), None), ("C".into(), Some(0))],
            vec![("A".into(), None)],
        ];
        for d in &lit_docs {
            for path in &lit_paths {
                let key = render(path);
                let want = match resolve(d, path) {
                    Some(v) => value_repr(&v),
                    None => "none".to_string(),
                };
                let line = format!("find {} {}", sx::doc_sx(d), sx::enc(&key));
                let ex = ctx.exchange(&line);
                ctx.check_agree(&ex, &key);
                ctx.nontrivial.insert(hash_str(&line));
                let mut got: Vec<(&str, String)> = vec![("YAML mapping", ex.imp.clone())];
                if let Some(js) = crate::suites2::json_of_yaml(d) {
                    let r = std::panic::catch_unwind(|| match tau_engine::Document::find(&js, &key) {
                        Some(v) => crate::implside::value_sx(&v),
                        None => "none".to_string(),
                    });
                    got.push(("serde_json value", r.unwrap_or_else(|_| "PANIC".into())));
                }
                for (name, g) in got {
                    if g != want {
                        ctx.violation("oracle", &format!("find({:?}) on {} as a {} gives {} but the addressed value is {}", key, serde_yaml::to_string(d).unwrap_or_default().replace('\n', " "), name, g, want), &ex, &key, true);
                    }
                }
                // the same through a rule: dotted key and nested mapping
                if path.iter().all(|(_, i)| i.is_none()) && path.len() >= 2 {
                    let mut nested = ys("deep");
                    for (n, _) in path.iter().rev() {
                        nested = map1(n, nested);
                    }
                    // the nested spelling means "some element" when an intermediate value is an array:
                    // it is the same as the dotted key only where the intermediates are objects
                    let mut via_array = false;
                    {
                        let mut cur = Some(d.clone());
                        for (n, _) in path.iter().take(path.len() - 1) {
                            cur = cur.and_then(|c| c.as_mapping().and_then(|m| m.get(ys(n)).cloned()));
                            if matches!(cur, Some(Yaml::Sequence(_))) {
                                via_array = true;
                            }
                        }
                    }
                    for (which, idv) in [map1(&key, ys("deep")), nested.clone()].into_iter().enumerate() {
                        if which == 1 && via_array {
                            continue;
                        }
                        let text = serde_yaml::to_string(&crate::implside::rule_value(&case(vec![("A".into(), idv), ("condition".into(), ys("A"))], vec![], vec![0]))).unwrap_or_default();
                        if let (Ok(rule), Some(m), Some(js)) = (tau_engine::Rule::from_str(&text), d.as_mapping(), crate::suites2::json_of_yaml(d)) {
                            let (a, b) = (rule.matches(m), rule.matches(&js));
                            let expect = want == value_repr(&ys("deep"));
                            if a != expect || b != expect {
                                ctx.violation("oracle", &format!("rule on key {:?}: YAML mapping {} / serde_json {} but the addressed value {} 'deep'", key, a, b, if expect { "is" } else { "is not" }), &ex, &text, true);
                            }
                        }
                    }
                }
            }
        }
    }
    // several nested mappings on ONE array field, and-ed (the optimiser merges them): each means
    // "some element satisfies it", independently of the others — plain and optimised
    {
        let el = |kvs: Vec<(&str, u64)>| -> Yaml { mapn(kvs.into_iter().map(|(k, v)| (k.to_string(), Yaml::Number(v.into()))).collect()) };
        let pool: Vec<Yaml> = vec![el(vec![("x", 1)]), el(vec![("y", 2)]), el(vec![("z", 3)]), el(vec![("x", 1), ("y", 2)]), el(vec![("x", 2)]), el(vec![("y", 1)])];
        let mut arrays: Vec<Vec<Yaml>> = pool.iter().map(|e| vec![e.clone()]).collect();
        for a in &pool {
            for b in &pool {
                arrays.push(vec![a.clone(), b.clone()]);
            }
        }
        let mut docs3: Vec<Yaml> = vec![];
        for a in &arrays {
            docs3.push(mapn(vec![("k".into(), Yaml::Number(1u64.into())), ("oa".into(), Yaml::Sequence(a.clone()))]));
        }
        docs3.push(mapn(vec![("k".into(), Yaml::Number(1u64.into()))]));
        docs3.push(mapn(vec![("oa".into(), Yaml::Sequence(vec![pool[3].clone()]))]));
        let has = |d: &Yaml, key: &str, val: u64| -> bool {
            match d.as_mapping().and_then(|m| m.get(ys("oa"))) {
                Some(Yaml::Sequence(xs)) => xs.iter().any(|e| e.as_mapping().and_then(|m| m.get(ys(key))).and_then(|v| v.as_u64()) == Some(val)),
                _ => false,
            }
        };
        let kk = |d: &Yaml| d.as_mapping().and_then(|m| m.get(ys("k"))).and_then(|v| v.as_u64()) == Some(1);
        for cond in ["A and B and C", "C and A and B", "A and B", "A and B and C and A"] {
            let det = vec![
                ("A".to_string(), map1("oa", map1("x", Yaml::Number(1u64.into())))),
                ("B".to_string(), map1("oa", map1("y", Yaml::Number(2u64.into())))),
                ("C".to_string(), map1("k", Yaml::Number(1u64.into()))),
                ("condition".to_string(), ys(cond)),
            ];
            let cs = case(det, docs3.clone(), vec![0, 2, 3, 15]);
            let (ex, parsed) = run_rule_case(ctx, &cs, false);
            let ry = rule_yaml(&cs);
            let p = match parsed {
                Some(p) if p.load == "ok" => p,
                _ => continue,
            };
            for m in &p.masks {
                for (j, d) in docs3.iter().enumerate() {
                    let want = has(d, "x", 1) && has(d, "y", 2) && (!cond.contains('C') || kk(d));
                    ctx.nontrivial.insert(hash_str(&format!("nestedand{}{}", cond, j)));
                    if (m.res[j].0 == "T") != want {
                        ctx.violation("oracle", &format!("`{}` (mask {}): document {} gives {} but 'some element has x = 1' and 'some element has y = 2'{} is {}", cond, m.mask, serde_yaml::to_string(d).unwrap_or_default().replace('\n', " "), m.res[j].0, if cond.contains('C') { " and k = 1" } else { "" }, want), &ex, &ry, true);
                        break;
                    }
                }
            }
        }
    }
    // the same blocks inside a DISJUNCTION with other blocks on that field: a merged "every block
    // holds for some element" group must not be folded into the per-field "some block holds" group
    {
        let el = |kvs: Vec<(&str, u64)>| -> Yaml { mapn(kvs.into_iter().map(|(k, v)| (k.to_string(), Yaml::Number(v.into()))).collect()) };
        let arrays: Vec<Vec<Yaml>> = vec![
            vec![el(vec![("x", 1)]), el(vec![("y", 2)]), el(vec![("z", 3)])], vec![el(vec![("x", 1), ("y", 2), ("z", 3)])], vec![el(vec![("x", 1)]), el(vec![("y", 2)])],
            vec![el(vec![("x", 2)])], vec![el(vec![("x", 1), ("y", 2)]), el(vec![("z", 3)])], vec![el(vec![("z", 3)])], vec![el(vec![("x", 1)]), el(vec![("x", 2)])], vec![],
        ];
        let mut docs4: Vec<Yaml> = vec![];
        for a in &arrays {
            docs4.push(map1("oa", Yaml::Sequence(a.clone())));
            docs4.push(mapn(vec![("k".into(), Yaml::Number(1u64.into())), ("oa".into(), Yaml::Sequence(a.clone()))]));
        }
        docs4.push(map1("oa", el(vec![("x", 1), ("y", 2), ("z", 3)])));
        docs4.push(map1("k", Yaml::Number(1u64.into())));
        let has = |d: &Yaml, key: &str, val: u64| -> bool {
            match d.as_mapping().and_then(|m| m.get(ys("oa"))) {
                Some(Yaml::Sequence(xs)) => xs.iter().any(|e| e.as_mapping().and_then(|m| m.get(ys(key))).and_then(|v| v.as_u64()) == Some(val)),
                Some(Yaml::Mapping(m)) => m.get(ys(key)).and_then(|v| v.as_u64()) == Some(val),
                _ => false,
            }
        };
        let kk = |d: &Yaml| d.as_mapping().and_then(|m| m.get(ys("k"))).and_then(|v| v.as_u64()) == Some(1);
        let conds: Vec<(&str, Box<dyn Fn(bool, bool, bool, bool, bool) -> bool>)> = vec![
            ("(A and B and D) or E or C", Box::new(|a, b, d, e, c| (a && b && d) || e || c)),
            ("E or (A and B and D) or C", Box::new(|a, b, d, e, c| e || (a && b && d) || c)),
            ("(A and B and D) or E", Box::new(|a, b, d, e, _c| (a && b && d) || e)),
            ("C or E or (A and B and D)", Box::new(|a, b, d, e, c| c || e || (a && b && d))),
            ("(A and B and D) or (E and C) or (D and C)", Box::new(|a, b, d, e, c| (a && b && d) || (e && c) || (d && c))),
        ];
        for (cond, table) in conds {
            let det = vec![
                ("A".to_string(), map1("oa", map1("x", Yaml::Number(1u64.into())))),
                ("B".to_string(), map1("oa", map1("y", Yaml::Number(2u64.into())))),
                ("D".to_string(), map1("oa", map1("z", Yaml::Number(3u64.into())))),
                ("E".to_string(), map1("oa", map1("x", Yaml::Number(2u64.into())))),
                ("C".to_string(), map1("k", Yaml::Number(1u64.into()))),
                ("condition".to_string(), ys(cond)),
            ];
            let cs = case(det, docs4.clone(), vec![0, 2, 3, 15]);
            let (ex, parsed) = run_rule_case(ctx, &cs, false);
            let ry = rule_yaml(&cs);
            let p = match parsed {
                Some(p) if p.load == "ok" => p,
                _ => continue,
            };
            'mm: for m in &p.masks {
                for (j, d) in docs4.iter().enumerate() {
                    let want = table(has(d, "x", 1), has(d, "y", 2), has(d, "z", 3), has(d, "x", 2), kk(d));
                    ctx.nontrivial.insert(hash_str(&format!("nestedor{}{}", cond, j)));
                    if (m.res[j].0 == "T") != want {
                        ctx.violation("oracle", &format!("`{}` over blocks on one array field (mask {}): document {} gives {}, expected {}", cond, m.mask, serde_yaml::to_string(d).unwrap_or_default().replace('\n', " "), m.res[j].0, want), &ex, &ry, true);
                        break 'mm;
                    }
                }
            }
        }
    }
    // arbitrary key strings: totality (no panic) and agreement with the model
    let n = budget(ctx, 1500, 30000);
    let pieces = ["a", "b", ".", "[", "]", "0", "1", "+1", "01", "-0", "", " ", "[0]", "[1]", "..", "a[", "]a", "é", "18446744073709551616", "[x]"];
    for i in 0..n {
        let mut r = Rng::new(ctx.seed.wrapping_mul(77).wrapping_add(i as u64));
        let k = 1 + r.below(6);
        let key: String = (0..k).map(|_| *r.pick(&pieces)).collect();
        let d = r.pick(&docs).clone();
        let line = format!("find {} {}", sx::doc_sx(&d), sx::enc(&key));
        let ex = ctx.exchange(&line);
        ctx.check_agree(&ex, &key);
        if ex.imp.starts_with("PANIC") {
            ctx.violation("oracle", &format!("find({:?}) panicked", key), &ex, &key, true);
        }
    }
    // indices at and beyond the ends of the 64-bit range, zero-padded, signed: an index that does not
    // name an element is missing — never a wrap-around onto another element, never a panic
    {
        let idx = ["0", "1", "2", "00", "01", "+1", "-1", "-0", "1.0", "1e0", " 1", "1 ", "", "18446744073709551615", "18446744073709551616", "18446744073709551617",
            "36893488147419103232", "36893488147419103233", "99999999999999999999", "4294967296", "4294967297", "9223372036854775808", "9223372036854775809",
            "000000000000000000000000001", "340282366920938463463374607431768211456", "340282366920938463463374607431768211457", "１", "٣"];
        let d: Yaml = serde_yaml::from_str("{a: [zero, one, two], b: {c: [x, y]}, n: 5}").unwrap();
        for i in idx {
            for key in [format!("a[{}]", i), format!("b.c[{}]", i), format!("zz[{}]", i), format!("n[{}]", i), format!("a[{}].k", i)] {
                let line = format!("find {} {}", sx::doc_sx(&d), sx::enc(&key));
                let ex = ctx.exchange(&line);
                ctx.check_agree(&ex, &key);
                if ex.imp.starts_with("PANIC") {
                    ctx.violation("oracle", &format!("find({:?}) panicked", key), &ex, &key, true);
                }
                // a rule over the key: true only if the index names that element
                let named: Option<usize> = i.trim_start_matches('+').parse::<usize>().ok().filter(|_| i.chars().all(|c| c.is_ascii_digit() || c == '+') && !i[1.min(i.len())..].contains('+'));
                if key.starts_with("a[") && !key.ends_with(".k") {
                    let want = named == Some(0);
                    let c = case(vec![("A".into(), map1(&key, ys("zero"))), ("condition".into(), ys("A"))], vec![d.clone()], vec![0, 15]);
                    let (ex2, parsed) = run_rule_case(ctx, &c, false);
                    if let Some(p) = parsed {
                        if p.load == "ok" {
                            for m in &p.masks {
                                if (m.res[0].0 == "T") != want {
                                    ctx.violation("oracle", &format!("key `{}` on a: [zero, one, two] (mask {}): engine {}, the index names element 0: {}", key, m.mask, m.res[0].0, want), &ex2, &rule_yaml(&c), true);
                                    break;
                                }
                            }
                        }
                    }
                }
            }
        }
    }
    // nested mappings vs dotted keys, and nested over arrays of objects
    let m = budget(ctx, 400, 8000);
    for i in 0..m {
        let mut r = Rng::new(ctx.seed.wrapping_mul(131).wrapping_add(i as u64));
        let leaf = if r.chance(50) { ys(&gen::gen_pattern(&mut r)) } else { Yaml::Number((*r.pick(&[1i64, 3])).into()) };
        let two = r.chance(50);
        let nested = if two { map1("o", map1("p", map1("q", leaf.clone()))) } else { map1("o", map1("k", leaf.clone())) };
        let dotted = if two { map1("o.p.q", leaf.clone()) } else { map1("o.k", leaf.clone()) };
        let docs2: Vec<Yaml> = (0..5).map(|_| gen::gen_doc(&mut r)).collect();
        let c1 = case(vec![("A".into(), nested), ("condition".into(), ys("A"))], docs2.clone(), vec![0]);
        let c2 = case(vec![("A".into(), dotted), ("condition".into(), ys("A"))], docs2.clone(), vec![0]);
        let (ex1, p1) = run_rule_case(ctx, &c1, false);
        let (_ex2, p2) = run_rule_case(ctx, &c2, false);
        if let (Some(p1), Some(p2)) = (p1, p2) {
            if p1.load != "ok" || p2.load != "ok" {
                continue;
            }
            let (r1, r2) = (tri_of(&p1, 0), tri_of(&p2, 0));
            for (j, d) in docs2.iter().enumerate() {
                // only where every intermediate value is an object
                let o = d.as_mapping().and_then(|m| m.get(ys("o")));
                let inter_ok = match o {
                    Some(Yaml::Mapping(om)) => !two || matches!(om.get(ys("p")), Some(Yaml::Mapping(_)) | None),
                    None => true,
                    _ => false,
                };
                if inter_ok {
                    ctx.nontrivial.insert(hash_str(&format!("nd{}{}", i, j)));
                    if (r1[j] == "T") != (r2[j] == "T") {
                        let ry = rule_yaml(&c1);
                        ctx.violation("oracle", &format!("nested mapping and dotted key disagree ({} vs {}) on document {}", r1[j], r2[j], serde_yaml::to_string(d).unwrap_or_default().replace('\n', " ")), &ex1, &ry, true);
                    }
                }
            }
        }
        // array of objects: some element satisfies the block (block = one plain key)
        let inner_rule = case(vec![("A".into(), map1("k", leaf.clone())), ("condition".into(), ys("A"))], vec![], vec![0]);
        let c3 = case(vec![("A".into(), map1("oa", map1("k", leaf.clone()))), ("condition".into(), ys("A"))], docs2.clone(), vec![0]);
        let (ex3, p3) = run_rule_case(ctx, &c3, false);
        if let Some(p3) = p3 {
            if p3.load != "ok" {
                continue;
            }
            let r3 = tri_of(&p3, 0);
            for (j, d) in docs2.iter().enumerate() {
                if let Some(Yaml::Sequence(elems)) = d.as_mapping().and_then(|m| m.get(ys("oa"))) {
                    let objs: Vec<Yaml> = elems.iter().filter(|e| e.is_mapping()).cloned().collect();
                    let mut ir = CaseReq { docs: objs.clone(), ..case(inner_rule.det.clone(), vec![], vec![0]) };
                    ir.docs = objs;
                    let (_e, pi) = run_rule_case(ctx, &ir, false);
                    if let Some(pi) = pi {
                        let any = tri_of(&pi, 0).iter().any(|t| t == "T");
                        if (r3[j] == "T") != any {
                            let ry = rule_yaml(&c3);
                            ctx.violation("oracle", &format!("nested mapping over an array of objects gives {} but 'some element satisfies it' is {}", r3[j], any), &ex3, &ry, true);
                        }
                    }
                }
            }
        }
    }
    // inner keys of a nested mapping are paths too: an index suffix (and a dotted inner key) is
    // resolved on the nested object exactly as the dotted top-level key resolves it, and is never
    // taken from a field whose NAME happens to be that text
    {
        let lit = |k: &str, v: Yaml| -> Yaml { map1(k, v) };
        let docs_i: Vec<Yaml> = vec![
            map1("o", lit("k", Yaml::Sequence(vec![ys("w"), ys("x")]))),
            map1("o", mapn(vec![("k".into(), Yaml::Sequence(vec![ys("y"), ys("z")])), ("k[1]".into(), ys("x"))])),
            map1("o", lit("k[1]", ys("x"))),
            map1("o", lit("k", ys("x"))),
            map1("o", lit("k", Yaml::Sequence(vec![ys("x")]))),
            map1("o", lit("k", Yaml::Sequence(vec![map1("q", ys("x")), map1("q", ys("w"))]))),
            map1("o", mapn(vec![("k".into(), map1("q", ys("w"))), ("k.q".into(), ys("x"))])),
            map1("o", lit("k", map1("q", ys("x")))),
            map1("o", Yaml::Sequence(vec![lit("k", Yaml::Sequence(vec![ys("w"), ys("x")])), lit("k[1]", ys("x"))])),
            mapn(vec![("o".into(), lit("k", Yaml::Sequence(vec![ys("w"), ys("y")]))), ("o.k[1]".into(), ys("x"))]),
        ];
        for (inner, dotted) in [("k[1]", "o.k[1]"), ("k[0]", "o.k[0]"), ("k.q", "o.k.q"), ("k[0].q", "o.k[0].q"), ("k", "o.k")] {
            for masks in [vec![0u64], vec![15u64]] {
                let c1 = case(vec![("A".into(), map1("o", map1(inner, ys("x")))), ("condition".into(), ys("A"))], docs_i.clone(), masks.clone());
                let c2 = case(vec![("A".into(), map1(dotted, ys("x"))), ("condition".into(), ys("A"))], docs_i.clone(), masks.clone());
                let (ex1, p1) = run_rule_case(ctx, &c1, false);
                let (_ex2, p2) = run_rule_case(ctx, &c2, false);
                if let (Some(p1), Some(p2)) = (p1, p2) {
                    if p1.load != "ok" || p2.load != "ok" {
                        continue;
                    }
                    let (r1, r2) = (tri_of(&p1, masks[0]), tri_of(&p2, masks[0]));
                    for (j, d) in docs_i.iter().enumerate() {
                        // where `o` is an object the two spellings address the same value
                        if !matches!(d.as_mapping().and_then(|m| m.get(ys("o"))), Some(Yaml::Mapping(_))) {
                            continue;
                        }
                        ctx.nontrivial.insert(hash_str(&format!("inneridx{}{}{}", inner, masks[0], j)));
                        if (r1[j] == "T") != (r2[j] == "T") {
                            let ry = rule_yaml(&c1);
                            ctx.violation("oracle", &format!("nested `o: {{{}: x}}` and dotted `{}: x` disagree ({} vs {}, mask {}) on document {}", inner, dotted, r1[j], r2[j], masks[0], serde_yaml::to_string(d).unwrap_or_default().replace('\n', " ")), &ex1, &ry, true);
                        }
                    }
                }
            }
        }
    }
    // a nested mapping with SEVERAL keys over an array of objects: one element has to satisfy all of
    // them (the block is evaluated per element), plain and negated, plain and optimised
    {
        let el = |n: &str, u: &str| mapn(vec![("name".into(), ys(n)), ("user".into(), ys(u))]);
        let docs2: Vec<(Yaml, bool)> = vec![
            (map1("procs", Yaml::Sequence(vec![el("cmd.exe", "bob"), el("sh", "root")])), false),
            (map1("procs", Yaml::Sequence(vec![el("cmd.exe", "root"), el("sh", "bob")])), true),
            (map1("procs", Yaml::Sequence(vec![el("sh", "root"), el("cmd.exe", "root")])), true),
            (map1("procs", el("cmd.exe", "root")), true),
            (map1("procs", el("cmd.exe", "bob")), false),
            (map1("procs", Yaml::Sequence(vec![map1("name", ys("cmd.exe")), map1("user", ys("root"))])), false),
            (map1("procs", Yaml::Sequence(vec![])), false),
        ];
        let dd: Vec<Yaml> = docs2.iter().map(|(d, _)| d.clone()).collect();
        for (cond, neg) in [("A", false), ("not A", true)] {
            for body in [mapn(vec![("name".into(), ys("cmd.exe")), ("user".into(), ys("root"))]), mapn(vec![("user".into(), ys("root")), ("name".into(), ys("cmd*"))]), mapn(vec![("name".into(), ys("?^cmd")), ("user".into(), ys("iROOT"))])] {
                let c = case(vec![("A".into(), map1("procs", body)), ("condition".into(), ys(cond))], dd.clone(), vec![0, 15, 2, 3]);
                let (ex, parsed) = run_rule_case(ctx, &c, false);
                let p = match parsed {
                    Some(p) if p.load == "ok" => p,
                    _ => continue,
                };
                for m in &p.masks {
                    for (j, (_, holds_)) in docs2.iter().enumerate() {
                        ctx.nontrivial.insert(hash_str(&format!("nested2{}{}{}", cond, ex.line.len(), j)));
                        let want = if neg { !holds_ } else { *holds_ };
                        if (m.res[j].0 == "T") != want {
                            ctx.violation("oracle", &format!("`{}` over a two-key nested mapping (mask {}) on {}: engine {}, 'some element satisfies the whole block' gives {}", cond, m.mask, serde_yaml::to_string(&dd[j]).unwrap_or_default().replace('\n', " "), m.res[j].0, want), &ex, &rule_yaml(&c), true);
                            break;
                        }
                    }
                }
            }
        }
    }
    // a nested mapping whose block is a QUANTIFIED key (of(k, n), n >= 2): over an array one element
    // has to reach the count; and a block under a DOTTED key is the block at that path (objects all
    // the way), never a search through arrays on the way
    {
        let el = |x: &str| map1("x", ys(x));
        let qdocs: Vec<(Yaml, bool)> = vec![
            (map1("k", Yaml::Sequence(vec![el("abc"), el("xyz")])), false),
            (map1("k", Yaml::Sequence(vec![el("abz"), el("q")])), true),
            (map1("k", el("abz")), true),
            (map1("k", el("abc")), false),
            (map1("k", Yaml::Sequence(vec![])), false),
            (map1("k", Yaml::Sequence(vec![el("q"), el("az")])), true),
        ];
        let dd: Vec<Yaml> = qdocs.iter().map(|(d, _)| d.clone()).collect();
        for members in [vec!["a*", "?.*z$"], vec!["a*", "?z$", "?^q"], vec!["?^a", "*z"]] {
            let body = map1("of(x, 2)", Yaml::Sequence(members.iter().map(|m| ys(m)).collect()));
            for (cond, neg) in [("A", false), ("not A", true)] {
                let c = case(vec![("A".into(), map1("k", body.clone())), ("condition".into(), ys(cond))], dd.clone(), vec![0, 15, 3]);
                let (ex, parsed) = run_rule_case(ctx, &c, false);
                if let Some(p) = parsed {
                    if p.load != "ok" { continue; }
                    for m in &p.masks {
                        for (j, (_, h)) in qdocs.iter().enumerate() {
                            ctx.nontrivial.insert(hash_str(&format!("nestedof{:?}{}{}", members, cond, j)));
                            let want = if neg { !h } else { *h };
                            if (m.res[j].0 == "T") != want {
                                ctx.violation("oracle", &format!("`{}` over k: {{of(x, 2): {:?}}} (mask {}) on {}: engine {}, 'one element reaches the count' gives {}", cond, members, m.mask, serde_yaml::to_string(&dd[j]).unwrap_or_default().replace('\n', " "), m.res[j].0, want), &ex, &rule_yaml(&c), true);
                                break;
                            }
                        }
                    }
                }
            }
        }
        let leaf = |v: &str| map1("c", ys(v));
        let pdocs: Vec<Yaml> = vec![
            map1("a", Yaml::Sequence(vec![map1("b", leaf("x"))])),
            map1("a", map1("b", leaf("x"))),
            map1("a", map1("b", leaf("y"))),
            map1("a", map1("b", Yaml::Sequence(vec![leaf("x"), leaf("y")]))),
            map1("a", Yaml::Number(5u64.into())),
            map1("a", Yaml::Sequence(vec![])),
            mapn(vec![("a.b".into(), leaf("x")), ("a".into(), Yaml::Number(1u64.into()))]),
            map1("a", Yaml::Sequence(vec![map1("b", leaf("y")), map1("b", leaf("x"))])),
        ];
        for cond in ["A", "not A"] {
            let c1 = case(vec![("A".into(), map1("a.b", leaf("x"))), ("condition".into(), ys(cond))], pdocs.clone(), vec![0, 15]);
            let c2 = case(vec![("A".into(), map1("a", map1("b", leaf("x")))), ("condition".into(), ys(cond))], pdocs.clone(), vec![0, 15]);
            let (ex1, p1) = run_rule_case(ctx, &c1, false);
            let (_ex2, p2) = run_rule_case(ctx, &c2, false);
            if let (Some(p1), Some(p2)) = (p1, p2) {
                if p1.load != "ok" || p2.load != "ok" { continue; }
                for mask in [0u64, 15] {
                    let (r1, r2) = (tri_of(&p1, mask), tri_of(&p2, mask));
                    for (j, d) in pdocs.iter().enumerate() {
                        ctx.nontrivial.insert(hash_str(&format!("dottedblock{}{}{}", cond, mask, j)));
                        // expected for the dotted block key: resolve a.b structurally, then the block
                        let at = d.as_mapping().and_then(|m| m.get(ys("a"))).and_then(|a| a.as_mapping()).and_then(|m| m.get(ys("b"))).cloned();
                        let inner = match &at {
                            Some(Yaml::Mapping(m)) => Some(m.get(ys("c")).and_then(|v| v.as_str()) == Some("x")),
                            Some(Yaml::Sequence(xs)) => Some(xs.iter().any(|e| e.as_mapping().and_then(|m| m.get(ys("c"))).and_then(|v| v.as_str()) == Some("x"))),
                            Some(_) => Some(false),
                            None => None,
                        };
                        let want = match (inner, cond) { (Some(b), "A") => b, (Some(b), _) => !b, (None, _) => false };
                        if (r1[j] == "T") != want {
                            ctx.violation("oracle", &format!("`{}` with the block key `a.b` (mask {}) on {}: engine {}, the block at path a.b gives {}", cond, mask, serde_yaml::to_string(d).unwrap_or_default().replace('\n', " "), r1[j], want), &ex1, &rule_yaml(&c1), true);
                            break;
                        }
                        // and where every step is an object the nested spelling agrees
                        if matches!(d.as_mapping().and_then(|m| m.get(ys("a"))), Some(Yaml::Mapping(_))) && (r1[j] == "T") != (r2[j] == "T") {
                            ctx.violation("oracle", &format!("block key `a.b` and nested `a: {{b: ..}}` disagree (mask {}) on {}", mask, serde_yaml::to_string(d).unwrap_or_default().replace('\n', " ")), &ex1, &rule_yaml(&c1), true);
                            break;
                        }
                    }
                }
            }
        }
    }
    // a NEGATED nested mapping: `not A` is true exactly when the block holds for no element (array),
    // does not hold (object), or the field is something else — also after optimisation
    {
        let ndocs: Vec<(Yaml, Option<bool>)> = vec![
            (map1("a", Yaml::Sequence(vec![map1("b", Yaml::Number(1u64.into())), map1("b", Yaml::Number(2u64.into()))])), Some(true)),
            (map1("a", Yaml::Sequence(vec![map1("b", Yaml::Number(2u64.into())), map1("b", Yaml::Number(3u64.into()))])), Some(false)),
            (map1("a", Yaml::Sequence(vec![])), Some(false)),
            (map1("a", Yaml::Number(5u64.into())), Some(false)),
            (map1("a", map1("b", Yaml::Number(1u64.into()))), Some(true)),
            (map1("a", map1("b", Yaml::Number(2u64.into()))), Some(false)),
            (map1("a", Yaml::Sequence(vec![ys("x"), map1("b", Yaml::Number(1u64.into()))])), Some(true)),
            (map1("a", Yaml::Sequence(vec![Yaml::Sequence(vec![map1("b", Yaml::Number(1u64.into()))])])), Some(false)),
        ];
        let docs_n: Vec<Yaml> = ndocs.iter().map(|(d, _)| d.clone()).collect();
        for (cond, neg) in [("A", false), ("not A", true), ("not (not A)", false), ("not A and B", true), ("B and not A", true)] {
            let det = vec![("A".into(), map1("a", map1("b", Yaml::Number(1u64.into())))), ("B".into(), map1("a", ys("*"))), ("condition".into(), ys(cond))];
            let c = case(det, docs_n.clone(), vec![0, 15, 3, 2]);
            let (ex, parsed) = run_rule_case(ctx, &c, false);
            let p = match parsed {
                Some(p) if p.load == "ok" => p,
                _ => continue,
            };
            for m in &p.masks {
                if m.mask != 0 && ex.agree && cond.contains("not (not") {
                    continue; // the recorded double-negation finding
                }
                for (j, (_, holds_)) in ndocs.iter().enumerate() {
                    ctx.nontrivial.insert(hash_str(&format!("negnested{}{}", cond, j)));
                    let inner = holds_.unwrap();
                    // B (`a: '*'`) is true only for string values of a, which none of the documents has,
                    // except through arrays holding a string
                    let want = if cond.contains('B') { None } else { Some(if neg { !inner } else { inner }) };
                    if let Some(w) = want {
                        if (m.res[j].0 == "T") != w {
                            ctx.violation("oracle", &format!("`{}` over the nested mapping a: {{b: 1}} (mask {}) on document {}: engine {}, 'some element satisfies it' gives {}", cond, m.mask, serde_yaml::to_string(&docs_n[j]).unwrap_or_default().replace('\n', " "), m.res[j].0, w), &ex, &rule_yaml(&c), true);
                            break;
                        }
                    } else if m.mask != 0 && m.res[j].0 != p.masks[0].res[j].0 && !ex.agree {
                        ctx.violation("oracle", &format!("`{}` (mask {}): optimised result {} differs from the plain result {}", cond, m.mask, m.res[j].0, p.masks[0].res[j].0), &ex, &rule_yaml(&c), true);
                        break;
                    }
                }
            }
        }
    }
    // multi-level nested mappings: arrays of objects at intermediate levels, every switch mask
    let k3 = budget(ctx, 150, 3000);
    for i in 0..k3 {
        let mut r = Rng::new(ctx.seed.wrapping_mul(173).wrapping_add(i as u64));
        let leaf_s = *r.pick(&["a", "a*", "*b", "x", "3"]);
        let nested = map1("o", map1("p", map1("q", ys(leaf_s))));
        let vals = ["a", "ab", "b", "x", "xb", "3"];
        let mut docs3 = vec![];
        for _ in 0..5 {
            let q1 = ys(*r.pick(&vals));
            let q2 = ys(*r.pick(&vals));
            docs3.push(match r.below(5) {
                0 => map1("o", map1("p", Yaml::Sequence(vec![map1("q", q1), map1("q", q2)]))),
                1 => map1("o", Yaml::Sequence(vec![map1("p", map1("q", q1)), map1("p", map1("q", q2))])),
                2 => map1("o", map1("p", map1("q", q1))),
                3 => mapn(vec![("o".into(), ys("scalar")), ("p".into(), map1("q", q1)), ("q".into(), q2)]),
                _ => map1("o", Yaml::Sequence(vec![map1("p", Yaml::Sequence(vec![map1("q", q1)])), ys("z")])),
            });
        }
        // structural oracle: some element satisfies, at every level
        fn sat(v: &Yaml, path: &[&str], leaf: &str) -> bool {
            if path.is_empty() {
                return match v { Yaml::String(s) => pattern_rel(leaf, s).unwrap_or(false), _ => false };
            }
            match v {
                Yaml::Mapping(m) => match m.get(Yaml::String(path[0].to_string())) {
                    Some(x) => match x {
                        Yaml::Sequence(xs) if path.len() > 1 => xs.iter().filter(|e| e.is_mapping()).any(|e| sat(e, &path[1..], leaf)),
                        Yaml::Sequence(xs) => xs.iter().any(|e| sat(e, &[], leaf)),
                        other => sat(other, &path[1..], leaf),
                    },
                    None => false,
                },
                _ => false,
            }
        }
        let c = case(vec![("A".into(), nested), ("condition".into(), ys("A"))], docs3.clone(), (0..16).collect());
        let (ex, p) = run_rule_case(ctx, &c, false);
        if let Some(p) = p {
            if p.load != "ok" {
                continue;
            }
            for m in &p.masks {
                for (j, d) in docs3.iter().enumerate() {
                    let want = sat(d, &["o", "p", "q"], leaf_s);
                    let got = m.res[j].0 == "T";
                    ctx.nontrivial.insert(hash_str(&format!("n3{}{}", i, j)));
                    if got != want {
                        let ry = rule_yaml(&c);
                        ctx.violation("oracle", &format!("nested mapping o: {{p: {{q: {}}}}} (mask {}) gives {} on {} but structural descent ('some element' at arrays) gives {}", leaf_s, m.mask, got, serde_yaml::to_string(d).unwrap_or_default().replace('\n', " "), want), &ex, &ry, true);
                        break;
                    }
                }
            }
        }
    }
    if ctx.samples.len() < 6 {
        ctx.sample(json!({"paths": all_paths.len(), "documents": docs.len(), "example_path": render(&all_paths[all_paths.len() / 2])}));
    }
}

fn value_repr(v: &Yaml) -> String {
    // the impl side's `find` reply format (implside::value_sx) on a YAML value
    match v {
        Yaml::Null => "null".into(),
        Yaml::Bool(b) => format!("{}", b),
        Yaml::Number(n) => {
            if n.is_u64() {
                format!("(u {})", n.as_u64().unwrap())
            } else if n.is_i64() {
                format!("(i {})", n.as_i64().unwrap())
            } else {
                format!("(f {})", n.as_f64().unwrap().to_bits())
            }
        }
        Yaml::String(s) => sx::enc(s),
        Yaml::Sequence(xs) => format!("(arr {})", xs.iter().map(value_repr).collect::<Vec<_>>().join(" ")),
        Yaml::Mapping(m) => format!(
            "(obj {})",
            m.iter().filter_map(|(k, v)| k.as_str().map(|k| format!("(kv {} {})", sx::enc(k), value_repr(v)))).collect::<Vec<_>>().join(" ")
        ),
        Yaml::Tagged(t) => value_repr(&t.value),
    }
}

// ------------------------------------------------------------------------------------ C17

fn permutations<T: Clone>(xs: &[T]) -> Vec<Vec<T>> {
    if xs.len() <= 1 {
        return vec![xs.to_vec()];
    }
    let mut out = vec![];
    for i in 0..xs.len() {
        let mut rest = xs.to_vec();
        let x = rest.remove(i);
        for mut p in permutations(&rest) {
            p.insert(0, x.clone());
            out.push(p);
        }
    }
    out
}

/// Deterministic part: (a) chains whose operands include negations, every order, every operand
/// vector, plain and optimised; (b) all()/of() over a sequence of multi-key mappings, every order of
/// the sequence, every switch family (with and without coalesce), documents lacking some fields.
fn c17_fixed(ctx: &mut Ctx) {
    // (a)
    let ids: Vec<(String, Yaml)> = (0..4).map(|i| (format!("P{}", i), map1(&format!("f{}", i), ys("x")))).collect();
    for (units, joiner) in [
        (vec!["not P0", "not P1", "P2"], " and "), (vec!["not P0", "not P1", "P2"], " or "),
        (vec!["not P0", "not P1", "not P2"], " and "), (vec!["not P0", "P1", "P2"], " and "),
        (vec!["not P0", "not P1", "P2", "P3"], " and "), (vec!["not P0", "not P1", "P2", "not P3"], " or "),
        (vec!["not P0", "not P1"], " and "),
    ] {
        let k = units.iter().map(|u| u.trim_start_matches("not ").trim_start_matches('P').parse::<usize>().unwrap()).max().unwrap() + 1;
        let vs = vectors(k);
        let docs: Vec<Yaml> = vs.iter().map(|v| doc_for(v)).collect();
        let mut base: Option<Vec<Vec<bool>>> = None;
        for perm in permutations(&(0..units.len()).collect::<Vec<_>>()) {
            let cond = perm.iter().map(|&j| units[j]).collect::<Vec<_>>().join(joiner);
            let mut det = ids[..k].to_vec();
            det.push(("condition".into(), ys(&cond)));
            let c = case(det, docs.clone(), vec![0, 15, 2, 3]);
            let (ex, parsed) = run_rule_case(ctx, &c, false);
            let p = match parsed {
                Some(p) if p.load == "ok" => p,
                _ => break,
            };
            ctx.nontrivial.insert(hash_str(&cond));
            let got: Vec<Vec<bool>> = [0u64, 15, 2, 3].iter().map(|m| tri_of(&p, *m).iter().map(|t| t == "T").collect()).collect();
            match &base {
                None => base = Some(got),
                Some(b) => {
                    if *b != got {
                        let which = (0..4).find(|i| b[*i] != got[*i]).unwrap_or(0);
                        let j = (0..vs.len()).find(|j| b[which][*j] != got[which][*j]).unwrap_or(0);
                        ctx.violation("oracle", &format!("reordering the operands of `{}` changes whether it is true (mask {}, operand results {:?})", cond, [0, 15, 2, 3][which], vs[j]), &ex, &rule_yaml(&c), true);
                        break;
                    }
                }
            }
        }
    }
    // (a') mixed chains written WITHOUT parentheses: `or` binds tighter than `and`, so swapping the
    //      operands of the `and` means swapping the two or-chains
    for (t1, t2, k) in [
        ("P0 and P1 or P2", "P1 or P2 and P0", 3usize),
        ("P0 or P1 and P2 or P3", "P2 or P3 and P0 or P1", 4),
        ("not P0 and P1 or P2", "P1 or P2 and not P0", 3),
        ("P0 and P1 or P2 and P3", "P3 and P1 or P2 and P0", 4),
        ("P0 or P1 and P2", "P2 and P0 or P1", 3),
        ("P0 or P1 and P2", "P2 and P1 or P0", 3),
    ] {
        let vs = vectors(k);
        let docs: Vec<Yaml> = vs.iter().map(|v| doc_for(v)).collect();
        let mut got: Vec<Vec<Vec<bool>>> = vec![];
        let mut exs = vec![];
        for t in [t1, t2] {
            let mut det = ids[..k].to_vec();
            det.push(("condition".into(), ys(t)));
            let c = case(det, docs.clone(), vec![0, 15]);
            let (ex, parsed) = run_rule_case(ctx, &c, false);
            if let Some(p) = parsed {
                if p.load == "ok" {
                    ctx.nontrivial.insert(hash_str(t));
                    got.push([0u64, 15].iter().map(|m| tri_of(&p, *m).iter().map(|x| x == "T").collect()).collect());
                    exs.push((ex, rule_yaml(&c)));
                }
            }
        }
        if got.len() == 2 && got[0] != got[1] {
            let which = (0..2).find(|i| got[0][*i] != got[1][*i]).unwrap_or(0);
            let j = (0..vs.len()).find(|j| got[0][which][*j] != got[1][which][*j]).unwrap_or(0);
            ctx.violation("oracle", &format!("`{}` and `{}` (the operands of the and swapped) differ (mask {}, operand results {:?})", t1, t2, [0, 15][which], vs[j]), &exs[1].0, &exs[1].1, true);
        }
    }
    // (a'') members of a list under a plain key, all(k) and of(k, n), every order: regexes that the
    //       optimiser may rewrite to the same text, repeated members
    {
        let docs: Vec<Yaml> = ["xfoox", "foo", "xfoo", "foox", "bar", "foobar", "x", ""].iter().map(|h| map1("k", ys(h))).collect();
        for members in [vec!["?.*foo", "?foo.*", "?bar"], vec!["?foo", "?foo", "?bar"], vec!["?.*foo.*", "?foo", "?.*bar"], vec!["*foo*", "*foo*", "*bar*"], vec!["i?.*FOO", "i?foo.*", "?x"]] {
            for key in ["k", "all(k)", "of(k, 1)", "of(k, 2)", "of(k, 3)"] {
                let mut base: Option<Vec<Vec<bool>>> = None;
                for perm in permutations(&(0..members.len()).collect::<Vec<_>>()) {
                    let seq: Vec<Yaml> = perm.iter().map(|&j| ys(members[j])).collect();
                    let c = case(vec![("A".into(), map1(key, Yaml::Sequence(seq))), ("condition".into(), ys("A"))], docs.clone(), vec![0, 15, 4, 2]);
                    let (ex, parsed) = run_rule_case(ctx, &c, false);
                    let p = match parsed {
                        Some(p) if p.load == "ok" => p,
                        _ => break,
                    };
                    ctx.nontrivial.insert(hash_str(&ex.line));
                    let got: Vec<Vec<bool>> = [0u64, 15, 4, 2].iter().map(|m| tri_of(&p, *m).iter().map(|t| t == "T").collect()).collect();
                    match &base {
                        None => base = Some(got),
                        Some(b) => {
                            if *b != got {
                                let which = (0..4).find(|i| b[*i] != got[*i]).unwrap_or(0);
                                ctx.violation("oracle", &format!("reordering the members {:?} under `{}` changes a verdict (mask {})", members, key, [0, 15, 4, 2][which]), &ex, &rule_yaml(&c), true);
                                break;
                            }
                        }
                    }
                }
            }
        }
    }
    // (b)
    let rows: Vec<Vec<(&str, &str)>> = vec![
        vec![("user", "root"), ("host", "alpha")],
        vec![("user", "admin"), ("shell", "bash")],
        vec![("host", "beta"), ("shell", "zsh")],
    ];
    let mut docs: Vec<Yaml> = vec![];
    for u in ["root", "admin", ""] {
        for h in ["alpha", "beta", ""] {
            for sh in ["bash", "zsh", ""] {
                let mut m = Mapping::new();
                if !u.is_empty() { m.insert(ys("user"), ys(u)); }
                if !h.is_empty() { m.insert(ys("host"), ys(h)); }
                if !sh.is_empty() { m.insert(ys("shell"), ys(sh)); }
                docs.push(Yaml::Mapping(m));
            }
        }
    }
    for nrows in [2usize, 3] {
        for cond in ["A", "all(A)", "of(A, 1)", "of(A, 2)", "of(A, 3)"] {
            let mut base: Option<Vec<Vec<bool>>> = None;
            for perm in permutations(&(0..nrows).collect::<Vec<_>>()) {
                let seq: Vec<Yaml> = perm.iter().map(|&j| mapn(rows[j].iter().map(|(k, v)| (k.to_string(), ys(v))).collect())).collect();
                let c = case(vec![("A".into(), Yaml::Sequence(seq)), ("condition".into(), ys(cond))], docs.clone(), vec![0, 15, 14, 10, 8]);
                let (ex, parsed) = run_rule_case(ctx, &c, false);
                let p = match parsed {
                    Some(p) if p.load == "ok" => p,
                    _ => break,
                };
                ctx.nontrivial.insert(hash_str(&ex.line));
                let got: Vec<Vec<bool>> = [0u64, 15, 14, 10, 8].iter().map(|m| tri_of(&p, *m).iter().map(|t| t == "T").collect()).collect();
                match &base {
                    None => base = Some(got),
                    Some(b) => {
                        if *b != got {
                            let which = (0..5).find(|i| b[*i] != got[*i]).unwrap_or(0);
                            ctx.violation("oracle", &format!("reordering the entries of the sequence under `{}` changes a verdict (mask {})", cond, [0, 15, 14, 10, 8][which]), &ex, &rule_yaml(&c), true);
                            break;
                        }
                    }
                }
            }
        }
    }
}

/// (b') the entries of ONE mapping in every order, where two entries read the same field through
///      different key forms (`a` and `str(a)`, `a` and `int(a)`), alone and as a row next to others
fn c17_rows_one_field(ctx: &mut Ctx) {
    let docs: Vec<Yaml> = [ys("xy"), ys("xz"), ys("qz"), ys("zz"), ys("x"), Yaml::Number(7u64.into()), Yaml::Number(12u64.into()), Yaml::Number(3u64.into()), ys("7")].into_iter().map(|v| map1("a", v)).chain(std::iter::once(mapn(vec![("b".into(), ys("1"))]))).collect();
    let entry_sets: Vec<Vec<(&str, Yaml)>> = vec![
        vec![("a", ys("x*")), ("str(a)", ys("*z"))],
        vec![("a", ys("x*")), ("str(a)", ys("*z")), ("b", ys("1"))],
        vec![("a", ys(">5")), ("int(a)", ys("<10"))],
        vec![("a", ys(">5")), ("flt(a)", ys("<10")), ("int(a)", ys(">6"))],
        vec![("a", ys("?^x")), ("str(a)", ys("?z$")), ("not(a)", ys("xqz"))],
        vec![("a", ys("*")), ("str(a)", ys("7*"))],
        vec![("str(a)", ys("*")), ("a", ys("x*"))],
        vec![("a", ys("*")), ("int(a)", ys(">5")), ("b", ys("1"))],
    ];
    let others: Vec<Yaml> = vec![map1("a", ys("zz")), mapn(vec![("a".into(), ys("3")), ("b".into(), ys("1"))])];
    let masks = vec![0u64, 15, 14, 10, 8, 12];
    for set in &entry_sets {
        for shape in 0..3 {
            let mut base: Option<Vec<Vec<bool>>> = None;
            for perm in permutations(&(0..set.len()).collect::<Vec<_>>()) {
                let row = mapn(perm.iter().map(|&j| (set[j].0.to_string(), set[j].1.clone())).collect());
                let body = match shape {
                    0 => row.clone(),
                    1 => Yaml::Sequence(vec![row.clone(), others[0].clone()]),
                    _ => Yaml::Sequence(vec![others[1].clone(), row.clone(), others[0].clone()]),
                };
                let c = case(vec![("A".into(), body), ("condition".into(), ys("A"))], docs.clone(), masks.clone());
                let (ex, parsed) = run_rule_case(ctx, &c, false);
                let p = match parsed {
                    Some(p) if p.load == "ok" => p,
                    _ => break,
                };
                ctx.nontrivial.insert(hash_str(&ex.line));
                let got: Vec<Vec<bool>> = masks.iter().map(|m| tri_of(&p, *m).iter().map(|t| t == "T").collect()).collect();
                // every mask must also agree with the plain rule: a conjunction is true iff all its entries are
                if let Some(w) = (1..masks.len()).find(|i| got[*i] != got[0]) {
                    ctx.violation("oracle", &format!("a mapping with two entries on one field: the optimised rule (mask {}) is true on other documents than the plain rule", masks[w]), &ex, &rule_yaml(&c), true);
                    break;
                }
                match &base {
                    None => base = Some(got),
                    Some(b) => {
                        if *b != got {
                            ctx.violation("oracle", "reordering the entries of a mapping that reads one field through two key forms changes a verdict", &ex, &rule_yaml(&c), true);
                            break;
                        }
                    }
                }
            }
        }
    }
}

/// (a''') lists that mix kinds (string patterns next to bare numbers, booleans, null) under a plain
///        key, in every order: a member means the same wherever it stands
fn c17_mixed_kind_lists(ctx: &mut Ctx) {
    let docs: Vec<Yaml> = vec![ys("8080"), Yaml::Number(8080u64.into()), ys("http"), ys("https-alt"), Yaml::Bool(true), ys("true"), Yaml::Null, ys("null"), Yaml::Number(2.5f64.into()), ys("2.5"), ys("x")].into_iter().map(|v| map1("port", v)).chain(std::iter::once(map1("other", ys("x")))).collect();
    let sets: Vec<Vec<Yaml>> = vec![
        vec![ys("http*"), Yaml::Number(8080u64.into())], vec![ys("http*"), Yaml::Number(8080u64.into()), ys("*alt")], vec![Yaml::Bool(true), ys("x")], vec![Yaml::Null, ys("nu*"), Yaml::Number(2.5f64.into())],
        vec![ys("i8080"), Yaml::Number(8080u64.into())], vec![ys("?^80"), Yaml::Number(8080u64.into()), Yaml::Bool(true)], vec![ys("*"), Yaml::Number(8080u64.into())],
    ];
    let masks = vec![0u64, 15, 2, 4];
    for members in &sets {
        let mut base: Option<Vec<Vec<bool>>> = None;
        for perm in permutations(&(0..members.len()).collect::<Vec<_>>()) {
            let seq: Vec<Yaml> = perm.iter().map(|&j| members[j].clone()).collect();
            for as_blocks in [false, true] {
                let body = if as_blocks { Yaml::Sequence(seq.iter().map(|m| map1("port", m.clone())).collect()) } else { map1("port", Yaml::Sequence(seq.clone())) };
                let c = case(vec![("A".into(), body), ("condition".into(), ys("A"))], docs.clone(), masks.clone());
                let (ex, parsed) = run_rule_case(ctx, &c, false);
                let p = match parsed {
                    Some(p) if p.load == "ok" => p,
                    _ => continue,
                };
                ctx.nontrivial.insert(hash_str(&ex.line));
                let got: Vec<Vec<bool>> = masks.iter().map(|m| tri_of(&p, *m).iter().map(|t| t == "T").collect()).collect();
                match &base {
                    None => base = Some(got),
                    Some(b) => {
                        if *b != got {
                            let which = (0..masks.len()).find(|i| b[*i] != got[*i]).unwrap_or(0);
                            ctx.violation("oracle", &format!("reordering the members {:?} of a mixed-kind list changes a verdict (mask {})", members, masks[which]), &ex, &rule_yaml(&c), true);
                            break;
                        }
                    }
                }
            }
        }
    }
}

/// (c) operands that differ only in their CASE FLAG (the same needles with and without `i`) in every
///     order of an and / or chain, and disjunctions of 130 to 260 entries on one field in several
///     rotations: neither what an operand is equal to nor how many there are makes the order count
fn c17_twins_and_long_lists(ctx: &mut Ctx) {
    let docs: Vec<Yaml> = [("ADMIN", "dc01"), ("admin", "dc01"), ("Root", "dc01"), ("x", "dc01"), ("admin", "ws"), ("ROOT", "DC01")].iter().map(|(u, h)| mapn(vec![("user".into(), ys(u)), ("host".into(), ys(h))])).collect();
    let ids: Vec<(String, Yaml)> = vec![
        ("A".into(), map1("user", Yaml::Sequence(vec![ys("admin"), ys("root")]))),
        ("B".into(), map1("user", Yaml::Sequence(vec![ys("iadmin"), ys("iroot")]))),
        ("C".into(), map1("host", ys("dc01"))),
        ("D".into(), map1("user", Yaml::Sequence(vec![ys("admin*"), ys("*root")]))),
        ("E".into(), map1("user", Yaml::Sequence(vec![ys("iadmin*"), ys("i*root")]))),
    ];
    let masks = vec![0u64, 15, 3, 2, 7];
    for (names, joiner) in [(vec!["A", "B", "C"], " and "), (vec!["B", "A", "C"], " or "), (vec!["D", "E", "C"], " and "), (vec!["A", "B", "D", "E"], " and "), (vec!["A", "E", "C"], " and "), (vec!["B", "D", "C"], " or ")] {
        let mut base: Option<Vec<Vec<bool>>> = None;
        for perm in permutations(&(0..names.len()).collect::<Vec<_>>()) {
            let cond = perm.iter().map(|&j| names[j]).collect::<Vec<_>>().join(joiner);
            let mut det = ids.clone();
            det.push(("condition".into(), ys(&cond)));
            let c = case(det, docs.clone(), masks.clone());
            let (ex, parsed) = run_rule_case(ctx, &c, false);
            let p = match parsed {
                Some(p) if p.load == "ok" => p,
                _ => break,
            };
            ctx.nontrivial.insert(hash_str(&cond));
            let got: Vec<Vec<bool>> = masks.iter().map(|m| tri_of(&p, *m).iter().map(|t| t == "T").collect()).collect();
            match &base {
                None => base = Some(got),
                Some(b) => {
                    if *b != got {
                        let which = (0..masks.len()).find(|i| b[*i] != got[*i]).unwrap_or(0);
                        ctx.violation("oracle", &format!("reordering the operands of `{}` (lists that differ only in their case flag) changes whether it is true (mask {})", cond, masks[which]), &ex, &rule_yaml(&c), true);
                        break;
                    }
                }
            }
        }
    }
    for (n, kind) in [(130usize, 0usize), (200, 1), (260, 2), (129, 0)] {
        let member = |i: usize| -> String { match kind { 0 => format!("srv{:03}", i), 1 => match i % 3 { 0 => format!("srv{:03}*", i), 1 => format!("*srv{:03}", i), _ => format!("*srv{:03}*", i) }, _ => format!("iSRV{:03}", i) } };
        let ldocs: Vec<Yaml> = [0usize, 1, 63, 64, 127, 128, n - 2, n - 1].iter().map(|i| map1("host", ys(&format!("srv{:03}", i)))).chain(std::iter::once(map1("host", ys("other")))).collect();
        let mut base: Option<Vec<Vec<bool>>> = None;
        for rot in [0usize, 1, 2, 64, n - 1] {
            let seq: Vec<Yaml> = (0..n).map(|j| map1("host", ys(&member((j + rot) % n)))).collect();
            for as_list in [false, true] {
                let body = if as_list { map1("host", Yaml::Sequence((0..n).map(|j| ys(&member((j + rot) % n))).collect())) } else { Yaml::Sequence(seq.clone()) };
                let c = case(vec![("A".into(), body), ("B".into(), map1("zone", ys("dmz"))), ("condition".into(), ys("A or B"))], ldocs.clone(), vec![0, 15, 2]);
                let (ex, parsed) = run_rule_case(ctx, &c, false);
                let p = match parsed {
                    Some(p) if p.load == "ok" => p,
                    _ => continue,
                };
                ctx.nontrivial.insert(hash_str(&format!("long{}{}{}{}", n, kind, rot, as_list)));
                let got: Vec<Vec<bool>> = [0u64, 15, 2].iter().map(|m| tri_of(&p, *m).iter().map(|t| t == "T").collect()).collect();
                match &base {
                    None => base = Some(got),
                    Some(b) => {
                        if *b != got {
                            let which = (0..3).find(|i| b[*i] != got[*i]).unwrap_or(0);
                            ctx.violation("oracle", &format!("a disjunction of {} entries on one field: rotating the entries by {} changes a verdict (mask {})", n, rot, [0, 15, 2][which]), &ex, &trunc(&rule_yaml(&c), 1200), true);
                            return;
                        }
                    }
                }
            }
        }
    }
}

pub fn run_c17(ctx: &mut Ctx, _known: &Known) {
    crate::suites3::rows_with_untabulated_entry(ctx, "C17");
    crate::suites3::big_needle_sets(ctx, "C17");
    crate::suites3::long_list_rotations(ctx, "C17");
    crate::suites3::same_field_triples(ctx, "C17", if ctx.tier == "thorough" { 1 } else { 3 });
    c17_fixed(ctx);
    c17_rows_one_field(ctx);
    c17_twins_and_long_lists(ctx);
    c17_mixed_kind_lists(ctx);
    let n = budget(ctx, 250, 6000);
    let masks = vec![0u64, 15];
    for i in 0..n {
        let mut r = Rng::new(ctx.seed.wrapping_mul(911).wrapping_add(i as u64));
        let k = 2 + r.below(3);
        let docs: Vec<Yaml> = (0..5).map(|_| gen::gen_doc(&mut r)).collect();
        let kind = r.below(7);
        // operands
        let mut entries: Vec<(Yaml, Yaml)> = (0..k).map(|_| gen::gen_entry(&mut r, 0)).collect();
        let mut docs = docs;
        if kind == 5 {
            // conjuncts nested on the same field (merged by shake), plus one plain conjunct
            let f = *r.pick(&["oa", "o"]);
            entries = vec![
                (ys(f), map1("k", ys(*r.pick(&["a", "a*", "*b", "x"])))),
                (ys(f), map1(*r.pick(&["p", "q"]), ys(*r.pick(&["a", "a*", "*b", "x"])))),
                (ys("s"), ys(*r.pick(&["a", "a*", "x"]))),
            ];
            if k == 4 {
                entries.push((ys("a"), ys("*")));
            }
            entries.truncate(k.max(3));
            docs.clear();
            for _ in 0..5 {
                let n = 1 + r.below(3);
                let elems: Vec<Yaml> = (0..n).map(|_| {
                    let mut o = Mapping::new();
                    for g in ["k", "p", "q"] {
                        if r.chance(55) { o.insert(ys(g), ys(*r.pick(&["a", "ab", "b", "x", "xb"]))); }
                    }
                    Yaml::Mapping(o)
                }).collect();
                let mut d = Mapping::new();
                d.insert(ys(f), Yaml::Sequence(elems));
                d.insert(ys("s"), ys(*r.pick(&["a", "ab", "x"])));
                d.insert(ys("a"), ys("z"));
                docs.push(Yaml::Mapping(d));
            }
        }
        if kind == 6 {
            // or-operands on one field with and without the str() cast, numeric document values
            entries = (0..k).map(|_| match r.below(3) {
                0 => (ys("str(n)"), Yaml::Number((*r.pick(&[1i64, 3])).into())),
                1 => (ys("n"), ys(*r.pick(&["foo", "3", "a*"]))),
                _ => (ys("str(n)"), ys(*r.pick(&["3", "1*"]))),
            }).collect();
            docs.clear();
            for v in [Yaml::Number(1u64.into()), Yaml::Number(3u64.into()), ys("3"), ys("foo"), Yaml::Number(15u64.into())] {
                docs.push(map1("n", v));
            }
        }
        let k = if kind == 5 { entries.len() } else { k };
        let members: Vec<Yaml> = (0..k).map(|_| ys(&gen::gen_pattern(&mut r))).collect();
        let perms: Vec<Vec<usize>> = permutations(&(0..k).collect::<Vec<_>>());
        let mut base: Option<(Vec<bool>, Vec<bool>)> = None;
        let mut base_exact: Option<Vec<String>> = None;
        for perm in perms {
            let form = match kind { 6 => if perm.len() % 2 == 0 { 3 } else { 1 }, 5 => 4, other => other };
            let (det, exact_claim): (Vec<(String, Yaml)>, bool) = match form {
                0 => {
                    // entries of a mapping (and): truth only
                    let mut m = Mapping::new();
                    for &j in &perm {
                        m.insert(entries[j].0.clone(), entries[j].1.clone());
                    }
                    if m.len() != k {
                        break;
                    }
                    (vec![("A".into(), Yaml::Mapping(m)), ("condition".into(), ys("A"))], false)
                }
                1 => {
                    // entries of a sequence of mappings (or): exact
                    let seq: Vec<Yaml> = perm.iter().map(|&j| { let mut m = Mapping::new(); m.insert(entries[j].0.clone(), entries[j].1.clone()); Yaml::Mapping(m) }).collect();
                    (vec![("A".into(), Yaml::Sequence(seq)), ("condition".into(), ys("A"))], true)
                }
                2 => {
                    // members of a list: exact
                    let seq: Vec<Yaml> = perm.iter().map(|&j| members[j].clone()).collect();
                    (vec![("A".into(), map1("a", Yaml::Sequence(seq))), ("condition".into(), ys("A"))], true)
                }
                3 => {
                    // operands of `or` in the condition
                    let mut det: Vec<(String, Yaml)> = (0..k).map(|j| (format!("P{}", j), { let mut m = Mapping::new(); m.insert(entries[j].0.clone(), entries[j].1.clone()); Yaml::Mapping(m) })).collect();
                    det.push(("condition".into(), ys(&perm.iter().map(|j| format!("P{}", j)).collect::<Vec<_>>().join(" or "))));
                    (det, true)
                }
                _ => {
                    let mut det: Vec<(String, Yaml)> = (0..k).map(|j| (format!("P{}", j), { let mut m = Mapping::new(); m.insert(entries[j].0.clone(), entries[j].1.clone()); Yaml::Mapping(m) })).collect();
                    det.push(("condition".into(), ys(&perm.iter().map(|j| format!("P{}", j)).collect::<Vec<_>>().join(" and "))));
                    (det, false)
                }
            };
            let c = case(det, docs.clone(), masks.clone());
            let (ex, parsed) = run_rule_case(ctx, &c, false);
            let p = match parsed {
                Some(p) if p.load == "ok" => p,
                _ => break,
            };
            let v0: Vec<bool> = tri_of(&p, 0).iter().map(|t| t == "T").collect();
            let v15: Vec<bool> = tri_of(&p, 15).iter().map(|t| t == "T").collect();
            ctx.nontrivial.insert(hash_str(&ex.line));
            match &base {
                None => {
                    base = Some((v0, v15));
                    base_exact = Some(tri_of(&p, 0));
                }
                Some((b0, b15)) => {
                    let ry = rule_yaml(&c);
                    if *b0 != v0 || *b15 != v15 {
                        ctx.violation("oracle", &format!("reordering operands (kind {}) changes whether the and/or is true: {:?} vs {:?}", kind, b0, v0), &ex, &ry, true);
                        break;
                    }
                    if exact_claim && base_exact.as_ref() != Some(&tri_of(&p, 0)) {
                        ctx.violation("oracle", &format!("reordering or-operands (kind {}) changes the three-valued result: {:?} vs {:?}", kind, base_exact, tri_of(&p, 0)), &ex, &ry, true);
                        break;
                    }
                }
            }
            if ctx.samples.len() < 6 {
                ctx.sample(json!({"kind": kind, "operands": k, "rule": rule_yaml(&c)}));
            }
        }
    }
}
