//! The committed known-findings file (/verif/known_findings.json). Never written at run time.

use serde_json::Value;

pub struct Finding {
    pub id: String,
    pub property: String,
    pub family: String,
    pub what: String,
    pub site: String,
    pub witness: String,
    pub witnesses: Vec<String>,
}

pub struct Known {
    pub findings: Vec<Finding>,
    pub raw: Value,
}

impl Known {
    pub fn load() -> Known {
        let path = std::env::var("TAU_KNOWN").unwrap_or_else(|_| "/verif/known_findings.json".to_string());
        let mut findings = vec![];
        let mut raw = Value::Null;
        if let Ok(text) = std::fs::read_to_string(&path) {
            if let Ok(v) = serde_json::from_str::<Value>(&text) {
                raw = v.clone();
                if let Some(arr) = v.get("findings").and_then(|f| f.as_array()) {
                    for f in arr {
                        let g = |k: &str| f.get(k).and_then(|x| x.as_str()).unwrap_or("").to_string();
                        findings.push(Finding {
                            id: g("id"),
                            property: g("property"),
                            family: g("family"),
                            what: g("what"),
                            site: g("site"),
                            witness: g("witness"),
                            witnesses: f
                                .get("witnesses")
                                .and_then(|w| w.as_array())
                                .map(|a| a.iter().filter_map(|x| x.as_str().map(|s| s.to_string())).collect())
                                .unwrap_or_default(),
                        });
                    }
                }
            }
        }
        Known { findings, raw }
    }

    pub fn has_family(&self, prop: &str, family: &str) -> bool {
        self.findings.iter().any(|f| f.property == prop && f.family == family)
    }

    pub fn by_witness(&self, prop: &str, name: &str) -> Option<&Finding> {
        self.findings.iter().find(|f| f.property == prop && f.witnesses.iter().any(|w| w == name))
    }

    /// `witness_members` / `witness_doc` of a finding (C08 member-list witnesses).
    pub fn witness_members(&self, id: &str) -> Option<(Vec<String>, String)> {
        let arr = self.raw.get("findings")?.as_array()?;
        let f = arr.iter().find(|f| f.get("id").and_then(|x| x.as_str()) == Some(id))?;
        let ms: Vec<String> = f.get("witness_members")?.as_array()?.iter().filter_map(|x| x.as_str().map(|s| s.to_string())).collect();
        let d = f.get("witness_doc")?.as_str()?.to_string();
        Some((ms, d))
    }

    pub fn for_prop(&self, prop: &str) -> Vec<&Finding> {
        self.findings.iter().filter(|f| f.property == prop).collect()
    }
}
