//! Suites for C08, C11, C12, C14, C15.

use std::borrow::Cow;
use std::collections::{HashMap, HashSet};
use std::sync::Arc;

use serde_json::json;
use serde_yaml::{Mapping, Value as Yaml};
use tau_engine::{AsValue, Document, Object, Rule, Value};

use crate::case;
use crate::check::*;
use crate::driver::Driver;
use crate::gen::{self, ys, Rng};
use crate::implside::{self, CaseReq};
use crate::known::Known;
use crate::props::{budget, run_rule_case};

fn mapn2(kvs: Vec<(&str, Yaml)>) -> Yaml {
    let mut m = Mapping::new();
    for (k, v) in kvs {
        m.insert(ys(k), v);
    }
    Yaml::Mapping(m)
}

fn map1(k: &str, v: Yaml) -> Yaml {
    let mut m = Mapping::new();
    m.insert(ys(k), v);
    Yaml::Mapping(m)
}

fn case_of(det: Vec<(String, Yaml)>, docs: Vec<Yaml>, masks: Vec<u64>) -> CaseReq {
    CaseReq { optimised: false, det, tps: vec![], tns: vec![], docs, masks }
}

fn verdicts_of(p: &Parsed, mask: u64) -> Vec<bool> {
    p.masks.iter().find(|m| m.mask == mask).map(|m| m.res.iter().map(|(t, _)| t == "T").collect()).unwrap_or_default()
}

// ------------------------------------------------------------------------------------ C08

fn gen_member(r: &mut Rng, kind: usize) -> Yaml {
    match kind {
        0 => {
            let w = *r.pick(&["a", "b", "ab", "ba", "abc", "x", "1", "3"]);
            let s = match r.below(7) {
                0 => w.to_string(),
                1 => format!("{}*", w),
                2 => format!("*{}", w),
                3 => format!("*{}*", w),
                4 => format!("?{}", r.pick(&["a", "^a", "b$", "a.*b", "[0-9]"])),
                5 => format!("i{}", w.to_uppercase()),
                _ => format!("i*{}*", w),
            };
            ys(&s)
        }
        1 => match r.below(3) {
            0 => Yaml::Number((*r.pick(&[1i64, 3, 0])).into()),
            1 => ys(&format!("{}{}", r.pick(&[">", "<", ">=", "="]), r.pick(&["0", "1", "3"]))),
            _ => Yaml::Number((2.5f64).into()),
        },
        2 => Yaml::Bool(r.chance(50)),
        _ => map1(*r.pick(&["k", "p", "q"]), ys(*r.pick(&["a", "b*", "*b", "x"]))),
    }
}

fn scalar_doc(r: &mut Rng) -> Yaml {
    let v = match r.below(8) {
        0..=3 => ys(*r.pick(&["a", "b", "ab", "ba", "abc", "x", "1", "3", "axb", "ABC", "xab", "aa", "abab", "bab", "xaxa"])),
        4 => Yaml::Number((*r.pick(&[0u64, 1, 3, 4])).into()),
        5 => Yaml::Bool(r.chance(50)),
        6 => Yaml::Number(2.5f64.into()),
        _ => {
            let mut m = Mapping::new();
            for k in ["k", "p", "q"] {
                if r.chance(60) {
                    m.insert(ys(k), ys(*r.pick(&["a", "b", "ab", "x", "bb"])));
                }
            }
            Yaml::Mapping(m)
        }
    };
    if r.chance(8) {
        Yaml::Mapping(Mapping::new())
    } else {
        map1("f", v)
    }
}

/// Evaluate every quantified form over `members` against the written-out rule.
/// Returns the number of known-finding hits (batched member inside a counted group).
fn c08_eval(ctx: &mut Ctx, known: &Known, members: &[Yaml], docs: &[Yaml], tag: &str) -> usize {
    use crate::suites::{t_and, t_of, t_or, Tri};
    let len = members.len();
    // per-member three-valued results from one-member rules
    let mut member_res: Vec<Vec<Tri>> = vec![];
    for m in members {
        let c = case_of(vec![("A".into(), map1("f", m.clone())), ("condition".into(), ys("A"))], docs.to_vec(), vec![0]);
        let (_ex, p) = run_rule_case(ctx, &c, false);
        match p {
            Some(p) if p.load == "ok" => member_res.push(
                p.masks[0].res.iter().map(|(t, _)| match t.as_str() { "T" => Tri::T, "F" => Tri::F, _ => Tri::M }).collect(),
            ),
            _ => return 0,
        }
    }
    let col = |j: usize| -> Vec<Tri> { member_res.iter().map(|v| v[j]).collect() };
    let list = Yaml::Sequence(members.to_vec());
    let seq_of_maps = Yaml::Sequence(members.iter().map(|m| map1("f", m.clone())).collect());
    // documents in which field g mirrors field f (for entries with two keys)
    let docs_g: Vec<Yaml> = docs
        .iter()
        .map(|d| {
            let mut m = d.as_mapping().cloned().unwrap_or_default();
            if let Some(v) = m.get(ys("f")).cloned() {
                m.insert(ys("g"), v);
            }
            Yaml::Mapping(m)
        })
        .collect();
    let mut forms: Vec<(String, Vec<(String, Yaml)>, Box<dyn Fn(&[Tri]) -> Tri>)> = vec![];
    forms.push(("plain list on a key".into(), vec![("A".into(), map1("f", list.clone())), ("condition".into(), ys("A"))], Box::new(|v| t_or(v))));
    forms.push(("all(k)".into(), vec![("A".into(), map1("all(f)", list.clone())), ("condition".into(), ys("A"))], Box::new(|v| t_and(v))));
    forms.push(("all(X) over a sequence of mappings".into(), vec![("X".into(), seq_of_maps.clone()), ("condition".into(), ys("all(X)"))], Box::new(|v| t_and(v))));
    forms.push(("all(X) over a one-key mapping holding the list".into(), vec![("X".into(), map1("f", list.clone())), ("condition".into(), ys("all(X)"))], Box::new(|v| t_and(v))));
    for nn in 0..=len + 1 {
        forms.push((format!("of(k, {})", nn), vec![("A".into(), map1(&format!("of(f, {})", nn), list.clone())), ("condition".into(), ys("A"))], Box::new(move |v| t_of(nn, v))));
        forms.push((format!("of(X, {}) over a sequence of mappings", nn), vec![("X".into(), seq_of_maps.clone()), ("condition".into(), ys(&format!("of(X, {})", nn)))], Box::new(move |v| t_of(nn, v))));
    }
    // a sequence with ONE entry: all()/of() count that entry, not what is inside it
    {
        let one_list = Yaml::Sequence(vec![map1("f", list.clone())]);
        forms.push(("all(X) over a one-entry sequence whose entry holds the list".into(), vec![("X".into(), one_list.clone()), ("condition".into(), ys("all(X)"))], Box::new(|v| t_or(v))));
        for nn in 0..=2usize {
            forms.push((format!("of(X, {}) over a one-entry sequence whose entry holds the list", nn), vec![("X".into(), one_list.clone()), ("condition".into(), ys(&format!("of(X, {})", nn)))], Box::new(move |v| t_of(nn, &[t_or(v)]))));
        }
        if len >= 2 {
            let mut e = serde_yaml::Mapping::new();
            e.insert(ys("f"), members[0].clone());
            e.insert(ys("g"), members[1].clone());
            let one_two = Yaml::Sequence(vec![Yaml::Mapping(e)]);
            forms.push(("all(X) over a one-entry sequence with a two-key entry [g mirrors f]".into(), vec![("X".into(), one_two.clone()), ("condition".into(), ys("all(X)"))], Box::new(|v| t_and(&v[..2]))));
            for nn in 0..=2usize {
                forms.push((format!("of(X, {}) over a one-entry sequence with a two-key entry [g mirrors f]", nn), vec![("X".into(), one_two.clone()), ("condition".into(), ys(&format!("of(X, {})", nn)))], Box::new(move |v| t_of(nn, &[t_and(&v[..2])]))));
            }
        }
    }
    // an identifier that is a mapping with ONE quantified key is ONE entry for all(X)/of(X, n)
    {
        let inner_all = map1("all(f)", list.clone());
        forms.push(("all(X) over a mapping whose only key is all(k)".into(), vec![("X".into(), inner_all.clone()), ("condition".into(), ys("all(X)"))], Box::new(|v| t_and(v))));
        for nn in 0..=2usize {
            forms.push((format!("of(X, {}) over a mapping whose only key is all(k)", nn), vec![("X".into(), inner_all.clone()), ("condition".into(), ys(&format!("of(X, {})", nn)))], Box::new(move |v| t_of(nn, &[t_and(v)]))));
            for mm in 1..=len.min(2) {
                let inner_of = map1(&format!("of(f, {})", mm), list.clone());
                forms.push((format!("of(X, {}) over a mapping whose only key is of(k, {})", nn, mm), vec![("X".into(), inner_of), ("condition".into(), ys(&format!("of(X, {})", nn)))], Box::new(move |v| t_of(nn, &[t_of(mm, v)]))));
            }
        }
    }
    let mut known_hits = 0;
    for (name, det, table) in forms {
        let use_docs: &[Yaml] = if name.contains("[g mirrors f]") { &docs_g } else { docs };
        let c = case_of(det, use_docs.to_vec(), vec![0, 2, 15, 1]);
        let (ex, p) = run_rule_case(ctx, &c, false);
        let p = match p {
            Some(p) if p.load == "ok" => p,
            _ => continue,
        };
        // optimised forms: a count that changes only after optimisation is reported here when the
        // model does not reproduce it (otherwise it is a C01 finding, decided by the C01 check)
        if !ex.agree {
            for mask in [2u64, 15, 1] {
                let gv = verdicts_of(&p, mask);
                for j in 0..docs.len() {
                    let want = table(&col(j)) == Tri::T;
                    if gv.get(j).copied() != Some(want) {
                        let ry = rule_yaml(&c);
                        ctx.violation(
                            "oracle",
                            &format!("{} {} (optimised, mask {}): members {:?}: document {} gives {:?}, the written-out rule gives {}", tag, name, mask, members, serde_yaml::to_string(&docs[j]).unwrap_or_default().replace('\n', " "), gv.get(j), want),
                            &ex, &ry, true);
                        break;
                    }
                }
            }
        }
        let got = verdicts_of(&p, 0);
        let tri: Vec<String> = p.masks[0].res.iter().map(|(t, _)| t.clone()).collect();
        for j in 0..docs.len() {
            let want = table(&col(j)) == Tri::T;
            ctx.nontrivial.insert(hash_str(&format!("{}{}{}", tag, name, j)));
            if got[j] != want {
                let ry = rule_yaml(&c);
                let shape = format!("{} {}", p.expr, p.ids);
                let batched = (shape.contains("(all ") || shape.contains("(of ")) && (shape.contains("(search (ac ") || shape.contains("(search (rset "));
                if ex.agree && ex.supported && batched && known.has_family("C08", "C08-batched-member") {
                    known_hits += 1;
                    ctx.stat("known-batched-member");
                } else {
                    ctx.violation(
                        "oracle",
                        &format!("{} {}: members {:?}: document {} gives {} ({}), the written-out rule gives {} (member results {:?})", tag, name, members, serde_yaml::to_string(&docs[j]).unwrap_or_default().replace('\n', " "), got[j], tri[j], want, col(j)),
                        &ex, &ry, true);
                }
                break;
            }
        }
        if ctx.samples.len() < 6 {
            ctx.sample(json!({"form": name, "members": members, "verdicts": got}));
        }
    }
    known_hits
}

/// all(X) / of(X, n) over a sequence of mappings whose rows use DIFFERENT subsets of the fields (a
/// table with empty cells once the matrix pass has run): every row counts, whatever cells it leaves
/// empty — every switch combination with the matrix pass.
fn c08_sparse_rows(ctx: &mut Ctx) {
    use crate::suites::{t_and, t_of, t_or, Tri};
    let row_sets: Vec<Vec<Vec<(&str, u64)>>> = vec![
        vec![vec![("a", 1)], vec![("b", 2)], vec![("a", 3), ("b", 4)]],
        vec![vec![("b", 2)], vec![("a", 1), ("c", 5)], vec![("c", 6)], vec![("a", 3), ("b", 4), ("c", 7)]],
        vec![vec![("a", 1), ("b", 2)], vec![("c", 5)], vec![("b", 4)]],
        vec![vec![("c", 5)], vec![("b", 2), ("c", 6)], vec![("a", 1), ("c", 7)]],
    ];
    let mut docs: Vec<Yaml> = vec![];
    for a in [None, Some(0u64), Some(1), Some(3)] {
        for b in [None, Some(2u64), Some(4)] {
            for c in [None, Some(5u64), Some(7)] {
                let mut m = Mapping::new();
                if let Some(v) = a { m.insert(ys("a"), Yaml::Number(v.into())); }
                if let Some(v) = b { m.insert(ys("b"), Yaml::Number(v.into())); }
                if let Some(v) = c { m.insert(ys("c"), Yaml::Number(v.into())); }
                docs.push(Yaml::Mapping(m));
            }
        }
    }
    let masks = vec![0u64, 8, 10, 12, 14, 15, 9];
    for rows in &row_sets {
        let seq = Yaml::Sequence(rows.iter().map(|r| mapn2(r.iter().map(|(k, v)| (*k, Yaml::Number((*v).into()))).collect())).collect());
        let row_tri = |d: &Yaml, r: &Vec<(&str, u64)>| -> Tri {
            let cells: Vec<Tri> = r.iter().map(|(k, v)| match d.as_mapping().and_then(|m| m.get(ys(k))).and_then(|x| x.as_u64()) { Some(x) if x == *v => Tri::T, Some(_) => Tri::F, None => Tri::M }).collect();
            t_and(&cells)
        };
        let mut conds: Vec<(String, Box<dyn Fn(&[Tri]) -> Tri>)> = vec![("X".into(), Box::new(|v| t_or(v))), ("all(X)".into(), Box::new(|v| t_and(v)))];
        for n in 1..=rows.len() {
            conds.push((format!("of(X, {})", n), Box::new(move |v| t_of(n, v))));
        }
        for (cond, table) in conds {
            let c = case_of(vec![("X".into(), seq.clone()), ("condition".into(), ys(&cond))], docs.clone(), masks.clone());
            let (ex, p) = run_rule_case(ctx, &c, false);
            let p = match p {
                Some(p) if p.load == "ok" => p,
                _ => continue,
            };
            ctx.nontrivial.insert(hash_str(&ex.line));
            for mask in &masks {
                // what optimisation changes in the COUNT of a reshaped group is C01's recorded finding
                // when the model reproduces it; anything else is judged here
                if *mask != 0 && ex.agree {
                    continue;
                }
                let got = verdicts_of(&p, *mask);
                let mut bad = None;
                for (j, d) in docs.iter().enumerate() {
                    let v: Vec<Tri> = rows.iter().map(|r| row_tri(d, r)).collect();
                    if got[j] != (table(&v) == Tri::T) {
                        bad = Some((j, v));
                        break;
                    }
                }
                if let Some((j, v)) = bad {
                    ctx.violation("oracle", &format!("`{}` over rows with empty cells (mask {}): document {} gives {}, the rows are {:?}", cond, mask, serde_yaml::to_string(&docs[j]).unwrap_or_default().replace('\n', " "), got[j], v), &ex, &rule_yaml(&c), true);
                    break;
                }
            }
        }
    }
}

/// A QUANTIFIED key (all(k), of(k, n)) written next to another key in one entry of a sequence whose
/// entries share a field (a table once the matrix pass has run): the quantifier still counts the
/// members of its list — every mask with the matrix pass.
fn c08_quantified_key_in_rows(ctx: &mut Ctx) {
    use crate::suites::{t_and, t_of, t_or, Tri};
    let members = ["a*", "*b", "*x*"];
    let kvals = ["ab", "axb", "ax", "xb", "b", "zz", ""];
    let mut docs: Vec<Yaml> = vec![];
    for k in kvals { for j in [1u64, 2] { docs.push(mapn2(vec![("k", ys(k)), ("j", Yaml::Number(j.into()))])); } }
    docs.push(mapn2(vec![("j", Yaml::Number(1u64.into()))]));
    let masks = vec![0u64, 8, 10, 12, 14, 15, 9, 11];
    let mut keys: Vec<(String, Box<dyn Fn(&[Tri]) -> Tri>)> = vec![("all(k)".into(), Box::new(|v| t_and(v)))];
    for n in 0..=3usize { keys.push((format!("of(k, {})", n), Box::new(move |v| t_of(n, v)))); }
    for (key, table) in keys {
        for swapped in [false, true] {
            let list = Yaml::Sequence(members.iter().map(|m| ys(m)).collect());
            let e1 = if swapped { mapn2(vec![("j", Yaml::Number(1u64.into())), (&key, list.clone())]) } else { mapn2(vec![(&key, list.clone()), ("j", Yaml::Number(1u64.into()))]) };
            let rows = Yaml::Sequence(vec![e1, mapn2(vec![("k", ys("zz")), ("j", Yaml::Number(2u64.into()))]), mapn2(vec![("j", Yaml::Number(7u64.into()))])]);
            let c = case_of(vec![("X".into(), rows), ("condition".into(), ys("X"))], docs.clone(), masks.clone());
            let (ex, p) = run_rule_case(ctx, &c, false);
            let p = match p {
                Some(p) if p.load == "ok" => p,
                _ => continue,
            };
            ctx.nontrivial.insert(hash_str(&ex.line));
            'mm: for mask in &masks {
                let got = verdicts_of(&p, *mask);
                for (jd, d) in docs.iter().enumerate() {
                    let kv = d.as_mapping().and_then(|m| m.get(ys("k"))).and_then(|v| v.as_str());
                    let jv = d.as_mapping().and_then(|m| m.get(ys("j"))).and_then(|v| v.as_u64());
                    let mem: Vec<Tri> = members.iter().map(|m| match kv { Some(h) => if crate::suites::pattern_rel(m, h) == Some(true) { Tri::T } else { Tri::F }, None => Tri::M }).collect();
                    let q = table(&mem);
                    let j1 = match jv { Some(1) => Tri::T, Some(_) => Tri::F, None => Tri::M };
                    let row0 = if swapped { t_and(&[j1, q]) } else { t_and(&[q, j1]) };
                    let row1 = t_and(&[match kv { Some("zz") => Tri::T, Some(_) => Tri::F, None => Tri::M }, match jv { Some(2) => Tri::T, Some(_) => Tri::F, None => Tri::M }]);
                    let row2 = match jv { Some(7) => Tri::T, Some(_) => Tri::F, None => Tri::M };
                    let want = t_or(&[row0, row1, row2]) == Tri::T;
                    if got[jd] != want {
                        ctx.violation("oracle", &format!("`{}` next to `j: 1` in one entry of a sequence (mask {}): document {} gives {}, the members are {:?}", key, mask, serde_yaml::to_string(d).unwrap_or_default().replace('\n', " "), got[jd], mem), &ex, &rule_yaml(&c), true);
                        break 'mm;
                    }
                }
            }
        }
    }
}

pub fn run_c08(ctx: &mut Ctx, known: &Known) {
    crate::suites3::nested_all_with_sibling(ctx, "C08");
    // recorded witnesses first (member lists stored in known_findings.json)
    for f in known.for_prop("C08") {
        if let Some((members, doc)) = known.witness_members(&f.id) {
            let ms: Vec<Yaml> = members.iter().map(|m| ys(m)).collect();
            let docs = vec![map1("f", ys(&doc))];
            let hits = c08_eval(ctx, known, &ms, &docs, &format!("witness:{}", f.id));
            if hits > 0 {
                *ctx.known_hits.entry(f.id.clone()).or_insert(0) += hits;
            }
        }
    }
    // a member that occurs several times in the value is still ONE member: strings in which the
    // needles repeat, against needle lists of every kind
    {
        let docs: Vec<Yaml> = ["aa", "aaa", "aab", "abab", "bb", "a", "b", "ab", "", "xaxa", "AA", "aAa", "baab", "a a"].iter().map(|h| map1("f", ys(h))).collect();
        for ms in [
            vec!["*a*", "*b*", "*x*"], vec!["*aa*", "*b*", "*c*"], vec!["a*", "*a", "*a*"], vec!["i*a*", "i*B*", "i*c*"],
            vec!["*a*", "*ab*", "*ba*", "*bb*"], vec!["?a", "?b", "?x"], vec!["?a+", "?(?i)A", "?b$"], vec!["*a*", "?a", "b*"],
            vec!["*a*", "*q*"], vec!["*a*", "*q*", "*z*"], vec!["a*", "aa*", "aaa*"],
        ] {
            let members: Vec<Yaml> = ms.iter().map(|m| ys(m)).collect();
            let hits = c08_eval(ctx, known, &members, &docs, &format!("repeat:{}", ms.join(",")));
            if hits > 0 {
                *ctx.known_hits.entry("random:C08-batched-member".into()).or_insert(0) += hits;
            }
        }
    }
    c08_sparse_rows(ctx);
    c08_quantified_key_in_rows(ctx);
    // numbers of every spelling as members: a whole-valued float member is still a FLOAT member
    // (it holds for the double 2.0, not for the integer 2), alone and next to others
    {
        let f = |x: f64| Yaml::Number(x.into());
        let docs: Vec<Yaml> = vec![f(2.0), Yaml::Number(2u64.into()), f(3.5), Yaml::Number(1000u64.into()), f(1000.0), ys("2"), ys("2.0"), f(-0.0), Yaml::Number(0u64.into()), Yaml::Number((-3i64).into()), f(-3.0)].into_iter().map(|v| map1("f", v)).collect();
        for members in [
            vec![f(2.0), f(3.5)], vec![f(2.0)], vec![f(1e3), f(2.5)], vec![f(2.0), ys("<3.5")], vec![Yaml::Number(2u64.into()), f(2.0)], vec![f(0.0), Yaml::Number(0u64.into())], vec![f(-3.0), f(1e3), Yaml::Number(1000u64.into())], vec![f(2.0), ys("a*")],
        ] {
            let hits = c08_eval(ctx, known, &members, &docs, &format!("numbers:{}", members.len()));
            if hits > 0 {
                *ctx.known_hits.entry("random:C08-batched-member".into()).or_insert(0) += hits;
            }
        }
    }
    // lists of 64 and more members (the engine counts distinct members differently from 64 on):
    // a start-anchored member whose needle occurs again later in the value is still ONE member
    {
        let mut ms: Vec<String> = vec!["cmd*".to_string()];
        for i in 0..66 {
            ms.push(format!("*zz{:02}*", i));
        }
        let docs: Vec<Yaml> = ["cmd /c cmd", "cmd zz07 cmd", "cmd", "x cmd", "zz07 zz08", "cmd zz01 zz02 zz03", "", "zz65 cmd"].iter().map(|h| map1("f", ys(h))).collect();
        for take in [63usize, 64, 65, 67] {
            let list = Yaml::Sequence(ms.iter().take(take).map(|m| ys(m)).collect());
            // expected counts per document: distinct members that hold
            let hits = |h: &str| -> usize { ms.iter().take(take).filter(|m| crate::suites::pattern_rel(m, h) == Some(true)).count() };
            for (key, need) in [("f".to_string(), 1usize), ("of(f, 1)".to_string(), 1), ("of(f, 2)".to_string(), 2), ("of(f, 3)".to_string(), 3), ("all(f)".to_string(), take)] {
                let c = case_of(vec![("A".into(), map1(&key, list.clone())), ("condition".into(), ys("A"))], docs.clone(), vec![0, 15]);
                let (ex, p) = run_rule_case(ctx, &c, false);
                if let Some(p) = p {
                    if p.load != "ok" { continue; }
                    for mask in [0u64, 15] {
                        let got = verdicts_of(&p, mask);
                        for (j, d) in docs.iter().enumerate() {
                            let h = d.as_mapping().and_then(|m| m.get(ys("f"))).and_then(|v| v.as_str()).unwrap_or("");
                            ctx.nontrivial.insert(hash_str(&format!("big{}{}{}", take, key, j)));
                            if got[j] != (hits(h) >= need) {
                                ctx.violation("oracle", &format!("`{}` over a list of {} members (mask {}) on {:?}: engine {}, {} distinct members hold", key, take, mask, h, got[j], hits(h)), &ex, &rule_yaml(&c), true);
                                break;
                            }
                        }
                    }
                }
            }
        }
    }
    // members and values with multi-byte characters (a value may have fewer characters than a member
    // has bytes and still satisfy every member)
    {
        let docs: Vec<Yaml> = ["日€日", "ßä", "é", "éé", "日", "€日", "", "Äé", "x日€日y", "日€", "aé", "éa", "ä€ä"].iter().map(|h| map1("f", ys(h))).collect();
        for ms in [vec!["日€*", "*€日"], vec!["*ßä*", "*ä"], vec!["é*", "*é"], vec!["*é*", "*éé"], vec!["iÄ*", "i*é"], vec!["*€*", "日*", "*日"], vec!["?^日", "?日$"], vec!["é", "*é", "é*"], vec!["ä€*", "*€ä", "*€*"]] {
            let members: Vec<Yaml> = ms.iter().map(|m| ys(m)).collect();
            let hits = c08_eval(ctx, known, &members, &docs, &format!("multibyte:{}", ms.join(",")));
            if hits > 0 {
                *ctx.known_hits.entry("random:C08-batched-member".into()).or_insert(0) += hits;
            }
        }
    }
    let n = budget(ctx, 400, 12000);
    for i in 0..n {
        let mut r = Rng::new(ctx.seed.wrapping_mul(523).wrapping_add(i as u64));
        let kind = *r.pick(&[0usize, 0, 0, 1, 2, 3]);
        let len = 1 + r.below(if ctx.tier == "thorough" { 5 } else { 4 });
        let members: Vec<Yaml> = (0..len).map(|_| gen_member(&mut r, kind)).collect();
        let docs: Vec<Yaml> = (0..6).map(|_| scalar_doc(&mut r)).collect();
        let hits = c08_eval(ctx, known, &members, &docs, &format!("random:{}", i));
        if hits > 0 {
            *ctx.known_hits.entry("random:C08-batched-member".into()).or_insert(0) += hits;
        }
    }
}

// ------------------------------------------------------------------------------------ C11

#[derive(Clone, Debug)]
pub enum MyVal {
    Null,
    Bool(bool),
    Int(i64),
    UInt(u64),
    Float(f64),
    Str(String),
    Arr(Vec<MyVal>),
    Obj(MyObj),
}

#[derive(Clone, Debug)]
pub struct MyObj(pub Vec<(String, MyVal)>);

impl AsValue for MyVal {
    fn as_value(&self) -> Value<'_> {
        match self {
            MyVal::Null => Value::Null,
            MyVal::Bool(b) => Value::Bool(*b),
            MyVal::Int(i) => Value::Int(*i),
            MyVal::UInt(u) => Value::UInt(*u),
            MyVal::Float(f) => Value::Float(*f),
            MyVal::Str(s) => Value::String(Cow::Borrowed(s)),
            MyVal::Arr(a) => Value::Array(a),
            MyVal::Obj(o) => Value::Object(o),
        }
    }
}

impl Object for MyObj {
    fn get(&self, key: &str) -> Option<Value<'_>> {
        self.0.iter().find(|(k, _)| k == key).map(|(_, v)| v.as_value())
    }
    fn keys(&self) -> Vec<Cow<'_, str>> {
        self.0.iter().map(|(k, _)| Cow::Borrowed(k.as_str())).collect()
    }
    fn len(&self) -> usize {
        self.0.len()
    }
}

/// A hand-written `Document` (not an `Object`): answers `find` itself.
pub struct HandDoc(pub MyObj);
impl Document for HandDoc {
    fn find(&self, key: &str) -> Option<Value<'_>> {
        Object::find(&self.0, key)
    }
}

fn my_of_yaml(y: &Yaml) -> MyVal {
    match y {
        Yaml::Null => MyVal::Null,
        Yaml::Bool(b) => MyVal::Bool(*b),
        Yaml::Number(n) => {
            if n.is_u64() {
                MyVal::UInt(n.as_u64().unwrap())
            } else if n.is_i64() {
                MyVal::Int(n.as_i64().unwrap())
            } else {
                MyVal::Float(n.as_f64().unwrap())
            }
        }
        Yaml::String(s) => MyVal::Str(s.clone()),
        Yaml::Sequence(xs) => MyVal::Arr(xs.iter().map(my_of_yaml).collect()),
        Yaml::Mapping(m) => MyVal::Obj(MyObj(m.iter().filter_map(|(k, v)| k.as_str().map(|k| (k.to_string(), my_of_yaml(v)))).collect())),
        Yaml::Tagged(t) => my_of_yaml(&t.value),
    }
}

/// The same data held in signed Rust integers where they fit (what a `HashMap<String, i64>` or a
/// struct with `i64` fields presents): non-negative integers up to i64::MAX become `Value::Int`.
fn my_signed(v: &MyVal) -> MyVal {
    match v {
        MyVal::UInt(u) if *u <= i64::MAX as u64 => MyVal::Int(*u as i64),
        MyVal::Arr(a) => MyVal::Arr(a.iter().map(my_signed).collect()),
        MyVal::Obj(o) => MyVal::Obj(MyObj(o.0.iter().map(|(k, x)| (k.clone(), my_signed(x))).collect())),
        other => other.clone(),
    }
}

pub fn json_of_yaml(y: &Yaml) -> Option<serde_json::Value> {
    Some(match y {
        Yaml::Null => serde_json::Value::Null,
        Yaml::Bool(b) => serde_json::Value::Bool(*b),
        Yaml::Number(n) => {
            if n.is_u64() {
                serde_json::Value::Number(n.as_u64().unwrap().into())
            } else if n.is_i64() {
                serde_json::Value::Number(n.as_i64().unwrap().into())
            } else {
                serde_json::Value::Number(serde_json::Number::from_f64(n.as_f64().unwrap())?)
            }
        }
        Yaml::String(s) => serde_json::Value::String(s.clone()),
        Yaml::Sequence(xs) => serde_json::Value::Array(xs.iter().map(json_of_yaml).collect::<Option<Vec<_>>>()?),
        Yaml::Mapping(m) => {
            let mut o = serde_json::Map::new();
            for (k, v) in m {
                o.insert(k.as_str()?.to_string(), json_of_yaml(v)?);
            }
            serde_json::Value::Object(o)
        }
        Yaml::Tagged(t) => json_of_yaml(&t.value)?,
    })
}

fn kind_name(v: &Value) -> String {
    match v {
        Value::Null => "null".into(),
        Value::Bool(b) => format!("bool:{}", b),
        Value::Float(f) => format!("float:{}", f.to_bits()),
        Value::Int(i) => format!("int:{}", i),
        Value::UInt(u) => format!("uint:{}", u),
        Value::String(s) => format!("str:{}", s),
        Value::Array(a) => {
            let mut items: Vec<String> = a.iter().map(|x| kind_name(&x)).collect();
            items.sort();
            format!("arr[{}]", items.join(","))
        }
        Value::Object(o) => format!("obj({})", o.len()),
    }
}

/// A hand-written `Object` may override `Object::find` ("this can be overridden if required"):
/// here one that keeps its fields under flattened dotted names. Wherever the engine reaches such an
/// object — as the document, behind `&dyn Object`, as the value of a nested block, as an element
/// of an array under a nested block — the object's OWN `find` answers, so the verdict is the one
/// the YAML / JSON rendering of the same data gets.
fn c11_overridden_find(ctx: &mut Ctx) {
    struct Flat(Vec<(String, MyVal)>);
    impl Flat {
        fn lookup(&self, key: &str) -> Option<Value<'_>> { self.0.iter().find(|(k, _)| k == key).map(|(_, v)| v.as_value()) }
    }
    impl Object for Flat {
        fn find(&self, key: &str) -> Option<Value<'_>> { self.lookup(key) }
        fn get(&self, key: &str) -> Option<Value<'_>> { self.lookup(key) }
        fn keys(&self) -> Vec<Cow<'_, str>> { self.0.iter().map(|(k, _)| Cow::Borrowed(k.as_str())).collect() }
        fn len(&self) -> usize { self.0.len() }
    }
    struct Outer { process: Flat, list: Vec<FlatVal> }
    struct FlatVal(Flat);
    impl AsValue for FlatVal { fn as_value(&self) -> Value<'_> { Value::Object(&self.0) } }
    impl Object for Outer {
        fn get(&self, key: &str) -> Option<Value<'_>> {
            match key { "process" => Some(Value::Object(&self.process)), "procs" => Some(Value::Array(&self.list)), _ => None }
        }
        fn keys(&self) -> Vec<Cow<'_, str>> { vec![Cow::Borrowed("process"), Cow::Borrowed("procs")] }
        fn len(&self) -> usize { 2 }
    }
    let flat = |name: &str, parent: &str, pid: i64| Flat(vec![("name".into(), MyVal::Str(name.into())), ("parent.name".into(), MyVal::Str(parent.into())), ("parent.pid".into(), MyVal::Int(pid)), ("args[1]".into(), MyVal::Str("-enc".into()))]);
    let nested_text = |name: &str, parent: &str, pid: i64| format!("{{name: {}, parent: {{name: {}, pid: {}}}, args: [x, -enc]}}", name, parent, pid);
    let bodies = [
        "process:\n      name: powershell.exe\n      parent.name: winword.exe",
        "process:\n      parent.name: winword.exe",
        "process:\n      parent.pid: 4",
        "process:\n      int(parent.pid): '>3'",
        "process:\n      args[1]: -enc",
        "process:\n      parent.name: ['i*WORD*', excel.exe]\n      name: '*shell*'",
        "procs:\n      parent.name: winword.exe",
        "procs:\n      name: cmd.exe\n      parent.pid: 9",
        "procs:\n      all(parent.name): ['*win*', '*word*']",
    ];
    for body in bodies {
        for cond in ["A", "not A"] {
            let text = format!("detection:\n  A:\n    {}\n  condition: {}\ntrue_positives: []\ntrue_negatives: []\n", body, cond);
            let base = match Rule::from_str(&text) { Ok(r) => r, Err(_) => continue };
            for (pname, pparent, ppid) in [("powershell.exe", "winword.exe", 4i64), ("powershell.exe", "explorer.exe", 4), ("cmd.exe", "winword.exe", 9)] {
                let ytext = format!("{{process: {}, procs: [{}, {}]}}", nested_text(pname, pparent, ppid), nested_text("cmd.exe", "services.exe", 9), nested_text(pname, pparent, ppid));
                let yv: Yaml = serde_yaml::from_str(&ytext).unwrap();
                let js = json_of_yaml(&yv).unwrap();
                let outer = Outer { process: flat(pname, pparent, ppid), list: vec![FlatVal(flat("cmd.exe", "services.exe", 9)), FlatVal(flat(pname, pparent, ppid))] };
                for mask in [0u64, 15, 3, 8] {
                    let rule = if mask == 0 { base.clone() } else { base.clone().optimise(implside::opts(mask)) };
                    ctx.evaluations += 1;
                    ctx.nontrivial.insert(hash_str(&format!("flat{}{}{}{}", body, cond, pparent, mask)));
                    let dynobj: &dyn Object = &outer;
                    let reps = [
                        ("yaml mapping", rule.matches(yv.as_mapping().unwrap())),
                        ("serde_json value", rule.matches(&js)),
                        ("hand-written Object whose members override find()", rule.matches(&outer)),
                        ("the same behind &dyn Object", rule.matches(&dynobj)),
                    ];
                    if reps.iter().any(|(_, b)| *b != reps[0].1) {
                        let dummy = ctx.exchange("tok s:");
                        ctx.violation("oracle", &format!("switches {}: rule `{}` ({}) on {}: verdicts differ between representations: {:?}", mask, body.replace('\n', " "), cond, ytext, reps), &dummy, &text, true);
                        break;
                    }
                }
                // the override itself is what answers behind &dyn Object
                let f = flat(pname, pparent, ppid);
                let d: &dyn Object = &f;
                let direct = Document::find(&d, "parent.name").and_then(|v| v.to_string());
                if direct.as_deref() != Some(pparent) {
                    let dummy = ctx.exchange("tok s:");
                    ctx.violation("oracle", &format!("Document::find on `&dyn Object` does not use the object's own find(): `parent.name` gives {:?}, the object answers {:?}", direct, pparent), &dummy, &text, true);
                }
            }
        }
    }
}

pub fn run_c11(ctx: &mut Ctx, _known: &Known) {
    c11_overridden_find(ctx);
    // (1) Rust scalar / container types map to the value kind with the same value and signedness
    let mut kinds: Vec<(String, String, String)> = vec![];
    macro_rules! k {
        ($e:expr, $want:expr) => {
            kinds.push((stringify!($e).to_string(), kind_name(&($e).as_value()), $want.to_string()));
        };
    }
    k!(-5i8, "int:-5");
    k!(i16::MIN, format!("int:{}", i16::MIN));
    k!(-7i32, "int:-7");
    k!(i64::MIN, format!("int:{}", i64::MIN));
    k!(i64::MAX, format!("int:{}", i64::MAX));
    k!(-9isize, "int:-9");
    k!(200u8, "uint:200");
    k!(u16::MAX, format!("uint:{}", u16::MAX));
    k!(u32::MAX, format!("uint:{}", u32::MAX));
    k!(u64::MAX, format!("uint:{}", u64::MAX));
    k!(9223372036854775808u64, "uint:9223372036854775808");
    k!(usize::MAX, format!("uint:{}", usize::MAX));
    k!(1.5f32, format!("float:{}", (1.5f64).to_bits()));
    for x in [0.1f32, 0.2, 1.1, -3.3, f32::MAX, f32::MIN, f32::MIN_POSITIVE, f32::EPSILON, 16777216.0, 1e-10, 123456.79, -0.0, 0.3333333] {
        // widening is exact: the f64 has the value of the f32, not of its decimal rendering
        kinds.push((format!("{:?}f32", x), kind_name(&x.as_value()), format!("float:{}", (x as f64).to_bits())));
    }
    for x in [0.1f64, 1e300, -1e-300, f64::MIN_POSITIVE, 2.5, 9007199254740993.0] {
        kinds.push((format!("{:?}f64", x), kind_name(&x.as_value()), format!("float:{}", x.to_bits())));
    }
    k!(i8::MIN, format!("int:{}", i8::MIN));
    k!(i8::MAX, format!("int:{}", i8::MAX));
    k!(i32::MIN, format!("int:{}", i32::MIN));
    k!(i32::MAX, format!("int:{}", i32::MAX));
    k!(isize::MIN, format!("int:{}", isize::MIN));
    k!(0u8, "uint:0");
    k!(0i64, "int:0");
    k!(u8::MAX, "uint:255");
    k!(false, "bool:false");
    k!(String::new(), "str:");
    k!(Some(0.1f32), format!("float:{}", (0.1f32 as f64).to_bits()));
    k!(vec![0.1f32, 2.5], format!("arr[float:{},float:{}]", (2.5f64).to_bits().min((0.1f32 as f64).to_bits()), (2.5f64).to_bits().max((0.1f32 as f64).to_bits())));
    k!(-0.0f64, format!("float:{}", (-0.0f64).to_bits()));
    k!(f64::INFINITY, format!("float:{}", f64::INFINITY.to_bits()));
    k!(f64::NEG_INFINITY, format!("float:{}", f64::NEG_INFINITY.to_bits()));
    k!(f32::INFINITY, format!("float:{}", f64::INFINITY.to_bits()));
    k!(f32::NEG_INFINITY, format!("float:{}", f64::NEG_INFINITY.to_bits()));
    kinds.push(("f64::NAN".to_string(), { let v = f64::NAN.as_value(); match v { Value::Float(x) if x.is_nan() => "float:nan".to_string(), other => kind_name(&other) } }, "float:nan".to_string()));
    kinds.push(("f32::NAN".to_string(), { let v = f32::NAN.as_value(); match v { Value::Float(x) if x.is_nan() => "float:nan".to_string(), other => kind_name(&other) } }, "float:nan".to_string()));
    k!(f64::MAX, format!("float:{}", f64::MAX.to_bits()));
    k!(true, "bool:true");
    k!(String::from("s"), "str:s");
    k!((), "null");
    k!(Some(5u8), "uint:5");
    k!(None::<i64>, "null");
    k!(Some(-5i64), "int:-5");
    k!(vec![1i64, -2], "arr[int:-2,int:1]");
    k!(vec![String::from("a")], "arr[str:a]");
    k!(vec![Some(1u64), None], "arr[null,uint:1]");
    {
        let mut hs = HashSet::new();
        hs.insert(3u32);
        hs.insert(4u32);
        k!(hs, "arr[uint:3,uint:4]");
    }
    for (expr, got, want) in &kinds {
        ctx.evaluations += 1;
        ctx.nontrivial.insert(hash_str(expr));
        ctx.distinct.insert(hash_str(expr));
        if got != want {
            let dummy = ctx.exchange("tok s:");
            ctx.violation("oracle", &format!("`{}`.as_value() is {} but must be {}", expr, got, want), &dummy, expr, true);
        }
    }
    ctx.sample(json!({"rust_type_mappings_checked": kinds.len()}));
    // (1b) the same number held signed or unsigned: every comparison operator against boundary
    //      constants gives the same verdict in every representation
    {
        let consts = ["0", "1", "5", "-1", "9223372036854775807", "0.0", "0.5"];
        let vals: Vec<u64> = vec![0, 1, 2, 5, 6, i64::MAX as u64];
        for op in ["=", ">", ">=", "<", "<="] {
            for c in consts {
                for (shape, idv, cond) in [
                    ("pattern", map1("f", ys(&format!("{}{}", op, c))), "A".to_string()),
                    ("negated", map1("f", ys(&format!("{}{}", op, c))), "not A".to_string()),
                ] {
                    let cs = case_of(vec![("A".into(), idv), ("condition".into(), ys(&cond))], vec![], vec![0]);
                    let rule = match Rule::from_value(implside::rule_value(&cs)) {
                        Ok(r) => r,
                        Err(_) => continue,
                    };
                    let opt = rule.clone().optimise(implside::opts(15));
                    for v in &vals {
                        ctx.evaluations += 1;
                        ctx.nontrivial.insert(hash_str(&format!("sign{}{}{}{}", op, c, v, shape)));
                        let unsigned = MyObj(vec![("f".to_string(), MyVal::UInt(*v))]);
                        let signed = MyObj(vec![("f".to_string(), MyVal::Int(*v as i64))]);
                        let js = serde_json::json!({ "f": v });
                        let mut hm: HashMap<String, i64> = HashMap::new();
                        hm.insert("f".to_string(), *v as i64);
                        let mut hmu: HashMap<String, u64> = HashMap::new();
                        hmu.insert("f".to_string(), *v);
                        for (rn, rl) in [("unoptimised", &rule), ("optimised", &opt)] {
                            let reps = [("Object with Value::UInt", rl.matches(&unsigned)), ("Object with Value::Int", rl.matches(&signed)), ("serde_json value", rl.matches(&js)), ("HashMap<String, i64>", rl.matches(&hm)), ("HashMap<String, u64>", rl.matches(&hmu))];
                            if reps.iter().any(|(_, b)| *b != reps[0].1) {
                                let dummy = ctx.exchange("tok s:");
                                ctx.violation("oracle", &format!("{} rule `f: '{}{}'` ({}), f = {}: verdicts differ between representations: {:?}", rn, op, c, shape, v, reps), &dummy, &rule_yaml(&cs), true);
                            }
                        }
                    }
                }
            }
        }
    }
    // (1c) two fields compared through casts in the condition, the two holding the same number with
    //      the same or with different Rust signedness; and whole-valued floats, which stay floats in
    //      every representation
    {
        let vals: Vec<u64> = vec![0, 3, 5, i64::MAX as u64];
        for cond in ["str(a) == str(b)", "int(a) == int(b)", "int(a) >= int(b)", "flt(a) == flt(b)", "flt(a) <= flt(b)", "not str(a) == str(b)"] {
            let cs = case_of(vec![("A".into(), map1("zz", ys("x"))), ("condition".into(), ys(cond))], vec![], vec![0]);
            let rule = match Rule::from_value(implside::rule_value(&cs)) {
                Ok(r) => r,
                Err(_) => continue,
            };
            let opt = rule.clone().optimise(implside::opts(15));
            for va in &vals {
                for vb in &vals {
                    ctx.evaluations += 1;
                    ctx.nontrivial.insert(hash_str(&format!("two{}{}{}", cond, va, vb)));
                    let mk = |a: MyVal, b: MyVal| MyObj(vec![("a".to_string(), a), ("b".to_string(), b)]);
                    let js = serde_json::json!({ "a": va, "b": vb });
                    let yv: Mapping = serde_yaml::from_str(&format!("{{a: {}, b: {}}}", va, vb)).unwrap();
                    for (rn, rl) in [("unoptimised", &rule), ("optimised", &opt)] {
                        let reps = [
                            ("yaml mapping", rl.matches(&yv)),
                            ("serde_json value", rl.matches(&js)),
                            ("Object a:u64 b:u64", rl.matches(&mk(MyVal::UInt(*va), MyVal::UInt(*vb)))),
                            ("Object a:i64 b:u64", rl.matches(&mk(MyVal::Int(*va as i64), MyVal::UInt(*vb)))),
                            ("Object a:u64 b:i64", rl.matches(&mk(MyVal::UInt(*va), MyVal::Int(*vb as i64)))),
                            ("Object a:i64 b:i64", rl.matches(&mk(MyVal::Int(*va as i64), MyVal::Int(*vb as i64)))),
                        ];
                        if reps.iter().any(|(_, b)| *b != reps[0].1) {
                            let dummy = ctx.exchange("tok s:");
                            ctx.violation("oracle", &format!("{} rule `{}`, a = {}, b = {}: verdicts differ between representations: {:?}", rn, cond, va, vb, reps), &dummy, &rule_yaml(&cs), true);
                        }
                    }
                }
            }
        }
        let fvals: Vec<f64> = vec![1.0, 2.0, -3.0, 0.0, -0.0, 1.5, 9007199254740992.0, 1e300, 5.0, 4294967296.0];
        for (key, pat) in [("f", "1.0"), ("f", ">=0.5"), ("f", "1"), ("f", "=1"), ("f", "<2.5"), ("f", "=5"), ("f", ">=5.0"), ("flt(f)", ">=0.5"), ("int(f)", "=1"), ("str(f)", "1"), ("str(f)", "1.0"), ("str(f)", "-0"), ("f", "=0"), ("f", "=0.0")] {
            for cond in ["A", "not A"] {
                let idv = match pat.parse::<f64>() {
                    Ok(x) if !pat.starts_with('=') && key == "f" && pat.contains('.') => map1(key, Yaml::Number(x.into())),
                    _ => map1(key, ys(pat)),
                };
                let cs = case_of(vec![("A".into(), idv), ("condition".into(), ys(cond))], vec![], vec![0]);
                let rule = match Rule::from_value(implside::rule_value(&cs)) {
                    Ok(r) => r,
                    Err(_) => continue,
                };
                let opt = rule.clone().optimise(implside::opts(15));
                for x in &fvals {
                    ctx.evaluations += 1;
                    ctx.nontrivial.insert(hash_str(&format!("wf{}{}{}{}", key, pat, cond, x.to_bits())));
                    let mut ym = Mapping::new();
                    ym.insert(ys("f"), Yaml::Number((*x).into()));
                    let js = serde_json::Value::Object(std::iter::once(("f".to_string(), serde_json::Value::Number(serde_json::Number::from_f64(*x).unwrap()))).collect());
                    let nested_js = serde_json::json!({ "o": js.clone() });
                    let mut hm: HashMap<String, f64> = HashMap::new();
                    hm.insert("f".to_string(), *x);
                    let my = MyObj(vec![("f".to_string(), MyVal::Float(*x))]);
                    let _ = nested_js;
                    for (rn, rl) in [("unoptimised", &rule), ("optimised", &opt)] {
                        let reps = [("yaml mapping", rl.matches(&ym)), ("serde_json value", rl.matches(&js)), ("HashMap<String, f64>", rl.matches(&hm)), ("hand-written Object (f64)", rl.matches(&my))];
                        if reps.iter().any(|(_, b)| *b != reps[0].1) {
                            let dummy = ctx.exchange("tok s:");
                            ctx.violation("oracle", &format!("{} rule `{}: {}` ({}), f = {:?} (a float): verdicts differ between representations: {:?}", rn, key, pat, cond, x, reps), &dummy, &rule_yaml(&cs), true);
                        }
                    }
                }
            }
        }
    }
    // (1d) arrays of numbers searched through a str() cast, also under all()/of() and optimised: the
    //      members may be held in any integer type
    {
        let arrays: Vec<Vec<u64>> = vec![vec![22, 8443], vec![8443], vec![84, 43], vec![1, 2, 3], vec![]];
        for (body, cond) in [("str(ports): ['84*', '*43']", "A"), ("str(ports): ['84*', '*43']", "all(A)"), ("str(ports): ['84*', '*43']", "of(A, 2)"),
            ("all(str(ports)): ['84*', '*43']", "A"), ("of(str(ports), 2): ['84*', '*43', '?^2']", "A"), ("str(ports): ['?^84', '?43$']", "all(A)"), ("str(ports): 8443", "A"), ("str(ports): ['i84*', 'i*43']", "of(A, 2)")] {
            let text = format!("detection:\n  A:\n    {}\n  condition: {}\ntrue_positives: []\ntrue_negatives: []\n", body, cond);
            let rule = match Rule::from_str(&text) {
                Ok(r) => r,
                Err(_) => continue,
            };
            for mask in [0u64, 15, 3, 1] {
                let rl = if mask == 0 { rule.clone() } else { rule.clone().optimise(implside::opts(mask)) };
                for a in &arrays {
                    ctx.evaluations += 1;
                    ctx.nontrivial.insert(hash_str(&format!("arr{}{}{}{:?}", body, cond, mask, a)));
                    let ym: Mapping = serde_yaml::from_str(&format!("{{ports: {:?}}}", a)).unwrap();
                    let js = serde_json::json!({ "ports": a });
                    let unsigned = MyObj(vec![("ports".to_string(), MyVal::Arr(a.iter().map(|x| MyVal::UInt(*x)).collect()))]);
                    let signed = MyObj(vec![("ports".to_string(), MyVal::Arr(a.iter().map(|x| MyVal::Int(*x as i64)).collect()))]);
                    let mut hv: HashMap<String, Vec<i64>> = HashMap::new();
                    hv.insert("ports".to_string(), a.iter().map(|x| *x as i64).collect());
                    let mut hu: HashMap<String, Vec<u32>> = HashMap::new();
                    hu.insert("ports".to_string(), a.iter().map(|x| *x as u32).collect());
                    let mut ho: HashMap<String, Vec<Option<i16>>> = HashMap::new();
                    ho.insert("ports".to_string(), a.iter().map(|x| Some(*x as i16)).collect());
                    let reps = [("yaml mapping", rl.matches(&ym)), ("serde_json value", rl.matches(&js)), ("Object with Value::UInt members", rl.matches(&unsigned)),
                        ("Object with Value::Int members", rl.matches(&signed)), ("HashMap<String, Vec<i64>>", rl.matches(&hv)), ("HashMap<String, Vec<u32>>", rl.matches(&hu)), ("HashMap<String, Vec<Option<i16>>>", rl.matches(&ho))];
                    if reps.iter().any(|(_, b)| *b != reps[0].1) {
                        let dummy = ctx.exchange("tok s:");
                        ctx.violation("oracle", &format!("rule `{}` / `{}` (mask {}), ports = {:?}: verdicts differ between representations: {:?}", body, cond, mask, a, reps), &dummy, &text, true);
                    }
                }
            }
        }
    }
    // (1e) non-finite floats are floats in every representation that can hold them; a YAML tag on a
    //      collection does not change what the collection is
    {
        for (key, pat) in [("f", ">1.5"), ("f", "<-1.5"), ("f", ">=0"), ("f", "=1"), ("str(f)", "inf"), ("str(f)", "NaN"), ("str(f)", "-inf"), ("flt(f)", ">1.5"), ("int(f)", ">1")] {
            for cond in ["A", "not A"] {
                let cs = case_of(vec![("A".into(), map1(key, ys(pat))), ("condition".into(), ys(cond))], vec![], vec![0]);
                let rule = match Rule::from_value(implside::rule_value(&cs)) { Ok(r) => r, Err(_) => continue };
                let opt = rule.clone().optimise(implside::opts(15));
                for x in [f64::INFINITY, f64::NEG_INFINITY, f64::NAN, 2.0] {
                    ctx.evaluations += 1;
                    ctx.nontrivial.insert(hash_str(&format!("nonfinite{}{}{}{}", key, pat, cond, x.to_bits())));
                    let mut ym = Mapping::new();
                    ym.insert(ys("f"), Yaml::Number(x.into()));
                    let mut h64: HashMap<String, f64> = HashMap::new();
                    h64.insert("f".into(), x);
                    let mut h32: HashMap<String, f32> = HashMap::new();
                    h32.insert("f".into(), x as f32);
                    let mut ho: HashMap<String, Option<f64>> = HashMap::new();
                    ho.insert("f".into(), Some(x));
                    let my = MyObj(vec![("f".to_string(), MyVal::Float(x))]);
                    for (rn, rl) in [("unoptimised", &rule), ("optimised", &opt)] {
                        let reps = [("yaml mapping", rl.matches(&ym)), ("HashMap<String, f64>", rl.matches(&h64)), ("HashMap<String, f32>", rl.matches(&h32)), ("HashMap<String, Option<f64>>", rl.matches(&ho)), ("hand-written Object (f64)", rl.matches(&my))];
                        if reps.iter().any(|(_, b)| *b != reps[0].1) {
                            let dummy = ctx.exchange("tok s:");
                            ctx.violation("oracle", &format!("{} rule `{}: {}` ({}), f = {:?}: verdicts differ between representations: {:?}", rn, key, pat, cond, x, reps), &dummy, &rule_yaml(&cs), true);
                        }
                    }
                }
            }
        }
        let pairs = [
            ("{f: !set [a, b]}", "{f: [a, b]}"), ("{o: !Process {k: a, j: 1}}", "{o: {k: a, j: 1}}"), ("{oa: !list [{k: a}, {k: b}]}", "{oa: [{k: a}, {k: b}]}"),
            ("{argv: !v [x, a]}", "{argv: [x, a]}"), ("{o: !t {p: !u {k: a}}}", "{o: {p: {k: a}}}"), ("{f: !s a}", "{f: a}"), ("{o: {k: !s a}}", "{o: {k: a}}"),
        ];
        for body in ["f: a", "f: ['a*', '*b']", "o:\n      k: a", "o.k: a", "oa:\n      k: b", "argv[1]: a", "o.p.k: a", "o:\n      p:\n        k: a", "all(f): [a, b]", "str(f): a"] {
            for cond in ["A", "not A"] {
                let text = format!("detection:\n  A:\n    {}\n  condition: {}\ntrue_positives: []\ntrue_negatives: []\n", body, cond);
                let rule = match Rule::from_str(&text) { Ok(r) => r, Err(_) => continue };
                let opt = rule.clone().optimise(implside::opts(15));
                for (tagged, plain) in pairs.iter() {
                    ctx.evaluations += 1;
                    ctx.nontrivial.insert(hash_str(&format!("tagged{}{}{}", body, cond, tagged)));
                    let (yt, yp): (Mapping, Mapping) = (serde_yaml::from_str(tagged).unwrap(), serde_yaml::from_str(plain).unwrap());
                    let js: serde_json::Value = serde_yaml::from_str(plain).unwrap();
                    for (rn, rl) in [("unoptimised", &rule), ("optimised", &opt)] {
                        let reps = [("the YAML mapping without tags", rl.matches(&yp)), ("the YAML mapping with tagged values", rl.matches(&yt)), ("serde_json value", rl.matches(&js))];
                        if reps.iter().any(|(_, b)| *b != reps[0].1) {
                            let dummy = ctx.exchange("tok s:");
                            ctx.violation("oracle", &format!("{} rule `{}` ({}), document {}: verdicts differ between representations: {:?}", rn, body.replace('\n', " "), cond, tagged, reps), &dummy, &text, true);
                        }
                    }
                }
            }
        }
    }
    // (1f) strings that end in line breaks, and EMPTY collections, are the same data in every
    //      representation
    {
        for sv in ["whoami\n", "a\n\n", "\n", "echo hi\necho bye\n", "x", " x ", ""] {
            for (body, cond) in [("command: whoami", "A"), ("command: 'whoami*'", "A"), ("command: '*i'", "A"), ("command: '?^echo hi\\necho bye\\n$'", "A"), ("command: '?i$'", "not A"), ("command: x", "A"), ("command: ''", "A"), ("command: '*'", "A")] {
                let text = format!("detection:\n  A:\n    {}\n  condition: {}\ntrue_positives: []\ntrue_negatives: []\n", body, cond);
                let rule = match Rule::from_str(&text) { Ok(r) => r, Err(_) => continue };
                ctx.evaluations += 1;
                ctx.nontrivial.insert(hash_str(&format!("nl{}{}{}", sv, body, cond)));
                let mut ym = Mapping::new();
                ym.insert(ys("command"), ys(sv));
                let js = serde_json::json!({ "command": sv });
                let mut hm: HashMap<String, String> = HashMap::new();
                hm.insert("command".into(), sv.to_string());
                let my = MyObj(vec![("command".to_string(), MyVal::Str(sv.to_string()))]);
                let via_text: Mapping = serde_yaml::from_str(&serde_yaml::to_string(&ym).unwrap()).unwrap();
                let reps = [("yaml mapping", rule.matches(&ym)), ("yaml mapping read back from its text", rule.matches(&via_text)), ("serde_json value", rule.matches(&js)), ("HashMap<String, String>", rule.matches(&hm)), ("hand-written Object", rule.matches(&my))];
                if reps.iter().any(|(_, b)| *b != reps[0].1) {
                    let dummy = ctx.exchange("tok s:");
                    ctx.violation("oracle", &format!("rule `{}` ({}), command = {:?}: verdicts differ between representations: {:?}", body, cond, sv, reps), &dummy, &text, true);
                }
            }
        }
        for (body, cond) in [("tags: admin", "A"), ("tags: admin", "not A"), ("tags: null", "A"), ("tags: ['a*', '*b']", "of(A, 0)"), ("all(tags): [a, b]", "not A"), ("str(tags): x", "not A"), ("tags:\n      k: v", "not A"), ("tags: '*'", "A")] {
            let text = format!("detection:\n  A:\n    {}\n  condition: {}\ntrue_positives: []\ntrue_negatives: []\n", body, cond);
            let rule = match Rule::from_str(&text) { Ok(r) => r, Err(_) => continue };
            for mask in [0u64, 15] {
                let rl = if mask == 0 { rule.clone() } else { rule.clone().optimise(implside::opts(mask)) };
                ctx.evaluations += 1;
                ctx.nontrivial.insert(hash_str(&format!("empty{}{}{}", body, cond, mask)));
                let ym: Mapping = serde_yaml::from_str("{tags: []}").unwrap();
                let js = serde_json::json!({ "tags": [] });
                let mut hv: HashMap<String, Vec<String>> = HashMap::new();
                hv.insert("tags".into(), vec![]);
                let mut hs: HashMap<String, HashSet<String>> = HashMap::new();
                hs.insert("tags".into(), HashSet::new());
                let mut ho: HashMap<String, Option<Vec<u8>>> = HashMap::new();
                ho.insert("tags".into(), Some(vec![]));
                let my = MyObj(vec![("tags".to_string(), MyVal::Arr(vec![]))]);
                let reps = [("yaml mapping", rl.matches(&ym)), ("serde_json value", rl.matches(&js)), ("HashMap<String, Vec<String>>", rl.matches(&hv)), ("HashMap<String, HashSet<String>>", rl.matches(&hs)), ("HashMap<String, Option<Vec<u8>>>", rl.matches(&ho)), ("hand-written Object", rl.matches(&my))];
                if reps.iter().any(|(_, b)| *b != reps[0].1) {
                    let dummy = ctx.exchange("tok s:");
                    ctx.violation("oracle", &format!("rule `{}` ({}, mask {}), tags = []: verdicts differ between representations: {:?}", body.replace('\n', " "), cond, mask, reps), &dummy, &text, true);
                }
            }
        }
    }
    // (1g) an INDEX into a collection with one possible order (one member), and keys that are special
    //      in YAML TEXT but ordinary in data (`<<`, `~`, `null`, `true`, `1`): the same in every
    //      representation
    {
        for (body, cond) in [("tags[0]: admin", "A"), ("tags[0]: admin", "not A"), ("tags[1]: admin", "not A"), ("tags[0]: 'a*'", "A"), ("all(tags[0]): [admin]", "A"), ("str(tags[0]): admin", "A"), ("n[0]: 7", "A"), ("int(n[0]): '>6'", "A")] {
            let text = format!("detection:\n  A:\n    {}\n  condition: {}\ntrue_positives: []\ntrue_negatives: []\n", body, cond);
            let rule = match Rule::from_str(&text) { Ok(r) => r, Err(_) => continue };
            for mask in [0u64, 15] {
                let rl = if mask == 0 { rule.clone() } else { rule.clone().optimise(implside::opts(mask)) };
                ctx.evaluations += 1;
                ctx.nontrivial.insert(hash_str(&format!("idx{}{}{}", body, cond, mask)));
                let ym: Mapping = serde_yaml::from_str("{tags: [admin], n: [7]}").unwrap();
                let js = serde_json::json!({ "tags": ["admin"], "n": [7] });
                #[derive(Clone)]
                enum V { S(Vec<String>), H(HashSet<String>), N(Vec<u64>), HN(HashSet<u64>) }
                impl AsValue for V {
                    fn as_value(&self) -> Value<'_> {
                        match self { V::S(v) => v.as_value(), V::H(h) => h.as_value(), V::N(v) => v.as_value(), V::HN(h) => h.as_value() }
                    }
                }
                let mut hv: HashMap<String, V> = HashMap::new();
                hv.insert("tags".into(), V::S(vec!["admin".into()]));
                hv.insert("n".into(), V::N(vec![7]));
                let mut hs: HashMap<String, V> = HashMap::new();
                hs.insert("tags".into(), V::H(["admin".to_string()].into_iter().collect()));
                hs.insert("n".into(), V::HN([7u64].into_iter().collect()));
                let my = MyObj(vec![("tags".to_string(), MyVal::Arr(vec![MyVal::Str("admin".into())])), ("n".to_string(), MyVal::Arr(vec![MyVal::UInt(7)]))]);
                let reps = [("yaml mapping", rl.matches(&ym)), ("serde_json value", rl.matches(&js)), ("HashMap of Vec", rl.matches(&hv)), ("HashMap of one-member HashSet", rl.matches(&hs)), ("hand-written Object", rl.matches(&my))];
                if reps.iter().any(|(_, b)| *b != reps[0].1) {
                    let dummy = ctx.exchange("tok s:");
                    ctx.violation("oracle", &format!("rule `{}` ({}, mask {}) on one-member collections: verdicts differ between representations: {:?}", body, cond, mask, reps), &dummy, &text, true);
                }
            }
        }
        for special in ["<<", "~", "null", "true", "1", "*", "&a", "!t", "? ", "- ", "#", "%"] {
            for (body, cond) in [("user: root", "A"), ("user: root", "not A"), ("host: web01", "A"), ("inner.user: root", "A"), ("inner:\n      user: root", "A")] {
                let text = format!("detection:\n  A:\n    {}\n  condition: {}\ntrue_positives: []\ntrue_negatives: []\n", body, cond);
                let rule = match Rule::from_str(&text) { Ok(r) => r, Err(_) => continue };
                ctx.evaluations += 1;
                ctx.nontrivial.insert(hash_str(&format!("special{}{}{}", special, body, cond)));
                // {host: web01, <special>: {user: root}, inner: {<special>: {user: root}, x: 1}, list: [{<special>: {user: root}}]}
                let mut under = Mapping::new();
                under.insert(ys("user"), ys("root"));
                let mut inner = Mapping::new();
                inner.insert(ys(special), Yaml::Mapping(under.clone()));
                inner.insert(ys("x"), Yaml::Number(1u64.into()));
                let mut ym = Mapping::new();
                ym.insert(ys("host"), ys("web01"));
                ym.insert(ys(special), if special == "~" { Yaml::Sequence(vec![Yaml::Mapping(under.clone())]) } else { Yaml::Mapping(under.clone()) });
                ym.insert(ys("inner"), Yaml::Mapping(inner));
                let js = match json_of_yaml(&Yaml::Mapping(ym.clone())) { Some(j) => j, None => continue };
                let hm: HashMap<String, serde_json::Value> = js.as_object().map(|o| o.iter().map(|(k, v)| (k.clone(), v.clone())).collect()).unwrap_or_default();
                let my = match my_of_yaml(&Yaml::Mapping(ym.clone())) { MyVal::Obj(o) => o, _ => continue };
                let via_text: Option<Mapping> = serde_yaml::to_string(&ym).ok().and_then(|t| serde_yaml::from_str(&t).ok());
                let mut reps = vec![("yaml mapping", rule.matches(&ym)), ("serde_json value", rule.matches(&js)), ("HashMap<String, serde_json::Value>", rule.matches(&hm)), ("hand-written Object", rule.matches(&my))];
                if let Some(vt) = &via_text {
                    if *vt == ym {
                        reps.push(("yaml mapping read back from its text", rule.matches(vt)));
                    }
                }
                if reps.iter().any(|(_, b)| *b != reps[0].1) {
                    let dummy = ctx.exchange("tok s:");
                    ctx.violation("oracle", &format!("rule `{}` ({}) on a document with a key named {:?}: verdicts differ between representations: {:?}", body.replace('\n', " "), cond, special, reps), &dummy, &text, true);
                }
            }
        }
    }
    // (1h) a hand-written Array whose members are rendered on demand (OWNED strings), and paths whose
    //      segments are digits (a plain segment is a KEY, `[n]` is an array index) — in every
    //      representation, top level and nested
    {
        struct Rendered(Vec<u32>);
        impl tau_engine::Array for Rendered {
            fn iter(&self) -> Box<dyn Iterator<Item = Value<'_>> + '_> {
                Box::new(self.0.as_slice().iter().map(|n: &u32| Value::String(Cow::Owned(format!("10.0.0.{}", n)))))
            }
            fn len(&self) -> usize { self.0.len() }
        }
        enum Fld { Arr(Rendered), Name(String) }
        impl AsValue for Fld {
            fn as_value(&self) -> Value<'_> {
                match self { Fld::Arr(a) => Value::Array(a), Fld::Name(s) => Value::String(Cow::Owned(s.clone())) }
            }
        }
        for (body, cond) in [("addrs: 10.0.0.7", "A"), ("addrs: '10.0.0.*'", "A"), ("addrs: '?\\.7$'", "A"), ("all(addrs): ['10.*', '*.7']", "A"), ("of(addrs, 2): ['10.*', '*.7', '*.9']", "A"), ("addrs: ['i10.0.0.7', x]", "A"), ("addrs: 10.0.0.7", "not A"), ("name: 'web*'", "A"), ("addrs[1]: 10.0.0.7", "A"), ("str(addrs): '*.9'", "A")] {
            let text = format!("detection:\n  A:\n    {}\n  condition: {}\ntrue_positives: []\ntrue_negatives: []\n", body, cond);
            let rule = match Rule::from_str(&text) { Ok(r) => r, Err(_) => continue };
            for mask in [0u64, 15] {
                let rl = if mask == 0 { rule.clone() } else { rule.clone().optimise(implside::opts(mask)) };
                ctx.evaluations += 1;
                ctx.nontrivial.insert(hash_str(&format!("owned{}{}{}", body, cond, mask)));
                let ym: Mapping = serde_yaml::from_str("{addrs: ['10.0.0.3', '10.0.0.7'], name: web01}").unwrap();
                let js = serde_json::json!({ "addrs": ["10.0.0.3", "10.0.0.7"], "name": "web01" });
                let mut hm: HashMap<String, Fld> = HashMap::new();
                hm.insert("addrs".into(), Fld::Arr(Rendered(vec![3, 7])));
                hm.insert("name".into(), Fld::Name("web01".into()));
                let reps = [("yaml mapping", rl.matches(&ym)), ("serde_json value", rl.matches(&js)), ("HashMap with a hand-written Array of owned strings", rl.matches(&hm))];
                if reps.iter().any(|(_, b)| *b != reps[0].1) {
                    let dummy = ctx.exchange("tok s:");
                    ctx.violation("oracle", &format!("rule `{}` ({}, mask {}): verdicts differ between representations: {:?}", body, cond, mask, reps), &dummy, &text, true);
                }
            }
        }
        for (body, cond, ytext) in [("process.name: cmd.exe", "A", "{process.name: cmd.exe}"), ("process.name: cmd.exe", "not A", "{process.name: cmd.exe}"), ("args[0]: x", "A", "{'args[0]': x}"), ("process.name: cmd.exe", "A", "{process.name: other, process: {name: cmd.exe}}"), ("a.b.c: 1", "A", "{a.b.c: 1}"), ("a.b.c: 1", "A", "{a: {b.c: 1}}"), ("int(n.v): '>3'", "A", "{n.v: 7}"), ("process:\n      name: cmd.exe", "A", "{process.name: cmd.exe}")] {
            let text = format!("detection:\n  A:\n    {}\n  condition: {}\ntrue_positives: []\ntrue_negatives: []\n", body, cond);
            let rule = match Rule::from_str(&text) { Ok(r) => r, Err(_) => continue };
            for mask in [0u64, 15] {
                let rl = if mask == 0 { rule.clone() } else { rule.clone().optimise(implside::opts(mask)) };
                ctx.evaluations += 1;
                ctx.nontrivial.insert(hash_str(&format!("flat{}{}{}{}", body, cond, ytext, mask)));
                let yv: Yaml = serde_yaml::from_str(ytext).unwrap();
                let ym = yv.as_mapping().unwrap().clone();
                let js = json_of_yaml(&yv).unwrap();
                let jm: serde_json::Map<String, serde_json::Value> = js.as_object().cloned().unwrap_or_default();
                let hm: HashMap<String, serde_json::Value> = jm.iter().map(|(k, v)| (k.clone(), v.clone())).collect();
                let my = match my_of_yaml(&yv) { MyVal::Obj(o) => o, _ => continue };
                let dynobj: &dyn Object = &my;
                let reps = [("yaml mapping", rl.matches(&ym)), ("serde_json value", rl.matches(&js)), ("serde_json map", rl.matches(&jm)), ("HashMap<String, serde_json::Value>", rl.matches(&hm)), ("hand-written Object", rl.matches(&my)), ("&dyn Object", rl.matches(&dynobj)), ("hand-written Document", rl.matches(&HandDoc(my.clone())))];
                if reps.iter().any(|(_, b)| *b != reps[0].1) {
                    let dummy = ctx.exchange("tok s:");
                    ctx.violation("oracle", &format!("rule `{}` ({}, mask {}) on {} (a key NAMED like a path): verdicts differ between representations: {:?}", body.replace('\n', " "), cond, mask, ytext, reps), &dummy, &text, true);
                }
            }
        }
        for (body, cond) in [("argv.2: whoami", "A"), ("argv[2]: whoami", "A"), ("ports[443]: open", "A"), ("ports.443: open", "A"), ("ports.0: closed", "A"), ("ports[0]: closed", "A"), ("argv.0: cmd.exe", "A"), ("argv.2: whoami", "not A"), ("inner.argv.1: /c", "A"), ("inner.argv[1]: /c", "A"), ("inner.ports[443]: open", "A"), ("inner:\n      ports[443]: open", "A"), ("inner:\n      argv.1: /c", "A"), ("'0': zero", "A"), ("'[0]': zero", "A")] {
            let text = format!("detection:\n  A:\n    {}\n  condition: {}\ntrue_positives: []\ntrue_negatives: []\n", body, cond);
            let rule = match Rule::from_str(&text) { Ok(r) => r, Err(_) => continue };
            ctx.evaluations += 1;
            ctx.nontrivial.insert(hash_str(&format!("digits{}{}", body, cond)));
            let ytext = "{argv: [cmd.exe, /c, whoami], ports: {'0': closed, '443': open}, '0': zero, inner: {argv: [cmd.exe, /c, whoami], ports: {'0': closed, '443': open}}}";
            let yv: Yaml = serde_yaml::from_str(ytext).unwrap();
            let ym = yv.as_mapping().unwrap().clone();
            let js = json_of_yaml(&yv).unwrap();
            let hm: HashMap<String, serde_json::Value> = js.as_object().map(|o| o.iter().map(|(k, v)| (k.clone(), v.clone())).collect()).unwrap_or_default();
            let my = match my_of_yaml(&yv) { MyVal::Obj(o) => o, _ => continue };
            let reps = [("yaml mapping", rule.matches(&ym)), ("serde_json value", rule.matches(&js)), ("HashMap<String, serde_json::Value>", rule.matches(&hm)), ("hand-written Object", rule.matches(&my))];
            if reps.iter().any(|(_, b)| *b != reps[0].1) {
                let dummy = ctx.exchange("tok s:");
                ctx.violation("oracle", &format!("rule `{}` ({}): verdicts differ between representations: {:?}", body.replace('\n', " "), cond, reps), &dummy, &text, true);
            }
        }
    }
    // (1i) paths of up to 24 steps against a document that resolves dotted keys ITSELF (a hand-written
    //      `Document` with its own walk), and strings that merely LOOK like other kinds (`yes`, `no`,
    //      `on`, `off`, `true`, `null`, `~`, `1`) held as strings in every representation
    {
        struct WalkDoc(MyObj);
        impl Document for WalkDoc {
            fn find(&self, key: &str) -> Option<Value<'_>> {
                let mut obj: &MyObj = &self.0;
                let mut cur: Option<&MyVal> = None;
                let segs: Vec<&str> = key.split('.').collect();
                for (n, seg) in segs.iter().enumerate() {
                    if n > 0 {
                        obj = match cur { Some(MyVal::Obj(o)) => o, _ => return None };
                    }
                    let (name, idx) = match seg.strip_suffix(']').and_then(|t| t.rsplit_once('[')) {
                        Some((nm, i)) => match i.parse::<usize>() { Ok(i) => (nm, Some(i)), Err(_) => (*seg, None) },
                        None => (*seg, None),
                    };
                    let v = obj.0.iter().find(|(k, _)| k == name).map(|(_, v)| v)?;
                    cur = Some(match idx { Some(i) => match v { MyVal::Arr(a) => a.get(i)?, _ => return None }, None => v });
                }
                cur.map(|v| v.as_value())
            }
        }
        for depth in [2usize, 8, 9, 16, 17, 20, 24] {
            let mut yv: Yaml = Yaml::Sequence(vec![ys("deep"), ys("deeper")]);
            for i in (1..=depth).rev() {
                yv = map1(&format!("l{}", i), yv);
            }
            let path: Vec<String> = (1..=depth).map(|i| format!("l{}", i)).collect();
            for (key, val, cond) in [(format!("{}[0]", path.join(".")), "deep", "A"), (format!("{}[1]", path.join(".")), "deep", "not A"), (path.join("."), "deeper", "A"), (format!("{}.x", path.join(".")), "deep", "not A")] {
                let text = format!("detection:\n  A:\n    {}: {}\n  condition: {}\ntrue_positives: []\ntrue_negatives: []\n", key, val, cond);
                let rule = match Rule::from_str(&text) { Ok(r) => r, Err(_) => continue };
                ctx.evaluations += 1;
                ctx.nontrivial.insert(hash_str(&format!("walk{}{}{}", depth, key, cond)));
                let ym = yv.as_mapping().unwrap().clone();
                let js = json_of_yaml(&yv).unwrap();
                let hm: HashMap<String, serde_json::Value> = js.as_object().map(|o| o.iter().map(|(k, v)| (k.clone(), v.clone())).collect()).unwrap_or_default();
                let my = match my_of_yaml(&yv) { MyVal::Obj(o) => o, _ => continue };
                let reps = [("yaml mapping", rule.matches(&ym)), ("serde_json value", rule.matches(&js)), ("HashMap<String, serde_json::Value>", rule.matches(&hm)), ("hand-written Object", rule.matches(&my)), ("hand-written Document with its own path walk", rule.matches(&WalkDoc(my.clone())))];
                if reps.iter().any(|(_, b)| *b != reps[0].1) {
                    let dummy = ctx.exchange("tok s:");
                    ctx.violation("oracle", &format!("a path of {} steps (`{}`): verdicts differ between representations: {:?}", depth, cond, reps), &dummy, &text, true);
                }
            }
        }
        for word in ["yes", "no", "on", "off", "Yes", "NO", "On", "OFF", "y", "n", "true", "True", "false", "null", "~", "1", "0", "1.0", ".inf", "0x1", "1e3"] {
            for (body, cond) in [(format!("answer: '{}'", word), "A"), ("answer: true".to_string(), "A"), ("answer: false".to_string(), "A"), (format!("str(answer): '{}'", word), "A"), ("int(answer): 1".to_string(), "A"), ("int(answer): 0".to_string(), "A"), ("answer: null".to_string(), "A"), (format!("votes: '{}'", word), "A"), (format!("votes: ['i{}', zz]", word), "not A"), ("flt(answer): '>=0.5'".to_string(), "A")] {
                let text = format!("detection:\n  A:\n    {}\n  condition: {}\ntrue_positives: []\ntrue_negatives: []\n", body, cond);
                let rule = match Rule::from_str(&text) { Ok(r) => r, Err(_) => continue };
                ctx.evaluations += 1;
                ctx.nontrivial.insert(hash_str(&format!("looks{}{}{}", word, body, cond)));
                let mut ym = Mapping::new();
                ym.insert(ys("answer"), ys(word));
                ym.insert(ys("votes"), Yaml::Sequence(vec![ys("maybe"), ys(word)]));
                let js = serde_json::json!({ "answer": word, "votes": ["maybe", word] });
                let mut hm: HashMap<String, serde_json::Value> = HashMap::new();
                hm.insert("answer".into(), serde_json::json!(word));
                hm.insert("votes".into(), serde_json::json!(["maybe", word]));
                let my = MyObj(vec![("answer".to_string(), MyVal::Str(word.to_string())), ("votes".to_string(), MyVal::Arr(vec![MyVal::Str("maybe".into()), MyVal::Str(word.to_string())]))]);
                let reps = [("yaml mapping", rule.matches(&ym)), ("serde_json value", rule.matches(&js)), ("HashMap<String, serde_json::Value>", rule.matches(&hm)), ("hand-written Object", rule.matches(&my))];
                if reps.iter().any(|(_, b)| *b != reps[0].1) {
                    let dummy = ctx.exchange("tok s:");
                    ctx.violation("oracle", &format!("rule `{}` ({}) on the STRING {:?}: verdicts differ between representations: {:?}", body, cond, word, reps), &dummy, &text, true);
                }
            }
        }
    }
    // (2) the same logical document in four representations gives the same verdicts
    let n = budget(ctx, 1200, 30000);
    for i in 0..n {
        let mut r = Rng::new(ctx.seed.wrapping_mul(271).wrapping_add(i as u64));
        let mut c = gen_case(&mut r, vec![0, 15], 3);
        c.docs.push(extreme_doc(&mut r));
        let (ex, parsed) = run_rule_case(ctx, &c, false);
        let p = match parsed {
            Some(p) if p.load == "ok" => p,
            _ => continue,
        };
        let rule = match Rule::from_value(implside::rule_value(&c)) {
            Ok(r) => r,
            Err(_) => continue,
        };
        let opt = rule.clone().optimise(implside::opts(15));
        for (j, d) in c.docs.iter().enumerate() {
            let map = match d.as_mapping() {
                Some(m) => m,
                None => continue,
            };
            for (rn, rl, mask) in [("unoptimised", &rule, 0u64), ("optimised", &opt, 15u64)] {
                let base = rl.matches(map);
                let reply_v = verdicts_of(&p, mask)[j];
                let mut reps: Vec<(&str, bool)> = vec![("yaml mapping", base)];
                if let Some(js) = json_of_yaml(d) {
                    reps.push(("serde_json value", rl.matches(&js)));
                    if let serde_json::Value::Object(o) = &js {
                        let hm: HashMap<String, serde_json::Value> = o.iter().map(|(k, v)| (k.clone(), v.clone())).collect();
                        reps.push(("HashMap<String, serde_json::Value>", rl.matches(&hm)));
                    }
                }
                let my = match my_of_yaml(d) {
                    MyVal::Obj(o) => o,
                    _ => continue,
                };
                let hm2: HashMap<String, MyVal> = my.0.iter().cloned().collect();
                reps.push(("HashMap<String, custom AsValue>", rl.matches(&hm2)));
                reps.push(("hand-written Object", rl.matches(&my)));
                reps.push(("hand-written Document", rl.matches(&HandDoc(my.clone()))));
                if let MyVal::Obj(signed) = my_signed(&MyVal::Obj(my.clone())) {
                    reps.push(("hand-written Object holding signed integers (i64) where they fit", rl.matches(&signed)));
                }
                ctx.nontrivial.insert(hash_str(&format!("{}{}{}", i, j, rn)));
                for (name, v) in &reps {
                    if *v != base || *v != reply_v {
                        // NaN cannot be carried by JSON; skipped above by json_of_yaml returning None
                        let ry = rule_yaml(&c);
                        ctx.violation("oracle", &format!("{} rule: document {} gives {} as {} but {} as a YAML mapping", rn, serde_yaml::to_string(d).unwrap_or_default().replace('\n', " "), v, name, base), &ex, &ry, true);
                        break;
                    }
                }
            }
        }
        if ctx.samples.len() < 6 {
            ctx.sample(json!({"rule": rule_yaml(&c), "representations": ["yaml mapping", "serde_json value", "HashMap<String, serde_json::Value>", "HashMap<String, custom AsValue>", "hand-written Object", "hand-written Document"]}));
        }
    }
}

fn extreme_doc(r: &mut Rng) -> Yaml {
    let mut m = Mapping::new();
    for f in gen::SIMPLE_FIELDS {
        let v = match r.below(8) {
            0 => Yaml::Number(u64::MAX.into()),
            1 => Yaml::Number(i64::MIN.into()),
            2 => Yaml::Number((i64::MAX as u64).into()),
            3 => Yaml::Number(9223372036854775808u64.into()),
            4 => Yaml::Number(1e300f64.into()),
            5 => Yaml::Number((-0.0f64).into()),
            6 => Yaml::Sequence(vec![Yaml::Number(u64::MAX.into()), Yaml::Number((-1i64).into()), ys("3")]),
            _ => gen::gen_doc_value(r, 0),
        };
        m.insert(ys(f), v);
    }
    Yaml::Mapping(m)
}

// ------------------------------------------------------------------------------------ C12

/// A chain of nested objects whose innermost lookup waits until `n` threads have arrived there:
/// all threads are then at the same nesting depth of `matches` at the same moment.
struct Rendezvous {
    child: Option<Box<Rendezvous>>,
    arrived: Arc<std::sync::atomic::AtomicUsize>,
    n: usize,
}

impl Object for Rendezvous {
    fn get(&self, key: &str) -> Option<Value<'_>> {
        match &self.child {
            Some(c) => {
                if key == "a" {
                    Some(Value::Object(c.as_ref()))
                } else {
                    None
                }
            }
            None => {
                if key != "x" {
                    return None;
                }
                use std::sync::atomic::Ordering;
                self.arrived.fetch_add(1, Ordering::SeqCst);
                let start = std::time::Instant::now();
                while self.arrived.load(Ordering::SeqCst) < self.n && start.elapsed().as_secs() < 5 {
                    std::thread::yield_now();
                }
                Some(Value::String(Cow::Borrowed("foo")))
            }
        }
    }
    fn keys(&self) -> Vec<Cow<'_, str>> {
        vec![Cow::Borrowed(if self.child.is_some() { "a" } else { "x" })]
    }
    fn len(&self) -> usize {
        1
    }
}

fn rendezvous_chain(depth: usize, arrived: &Arc<std::sync::atomic::AtomicUsize>, n: usize) -> Rendezvous {
    let mut cur = Rendezvous { child: None, arrived: Arc::clone(arrived), n };
    for _ in 0..depth {
        cur = Rendezvous { child: Some(Box::new(cur)), arrived: Arc::clone(arrived), n };
    }
    cur
}

/// 16 threads, each several levels deep inside `matches` on a nested rule at the same moment:
/// every one of them gets the verdict a single thread gets.
fn c12_concurrent_depth(ctx: &mut Ctx) {
    for depth in [3usize, 5, 7] {
        // rule: a: {a: {... {x: foo}}} with `depth` levels of nesting
        let mut body = map1("x", ys("foo"));
        for _ in 0..depth {
            body = map1("a", body);
        }
        let c = case_of(vec![("A".into(), body), ("condition".into(), ys("A"))], vec![], vec![0]);
        let rule = match Rule::from_value(implside::rule_value(&c)) {
            Ok(r) => r,
            Err(_) => continue,
        };
        for (label, rl) in [("unoptimised", rule.clone()), ("optimised", rule.clone().optimise(implside::opts(15)))] {
            let single = {
                let arrived = Arc::new(std::sync::atomic::AtomicUsize::new(0));
                rl.matches(&rendezvous_chain(depth, &arrived, 1))
            };
            let arrived = Arc::new(std::sync::atomic::AtomicUsize::new(0));
            let shared = Arc::new(rl);
            let mut handles = vec![];
            for _ in 0..16 {
                let r = Arc::clone(&shared);
                let a = Arc::clone(&arrived);
                handles.push(std::thread::spawn(move || r.matches(&rendezvous_chain(depth, &a, 16))));
            }
            let got: Vec<bool> = handles.into_iter().map(|h| h.join().unwrap_or(false)).collect();
            ctx.evaluations += 1;
            ctx.nontrivial.insert(hash_str(&format!("rendezvous{}{}", depth, label)));
            if !single || got.iter().any(|b| *b != single) {
                let dummy = ctx.exchange("tok s:");
                ctx.violation("oracle", &format!("{} rule nested {} levels: one thread alone gets {}, 16 threads inside matches() at the same depth get {:?}", label, depth, single, got), &dummy, &rule_yaml(&c), true);
            }
        }
    }
}

pub fn run_c12(ctx: &mut Ctx, _known: &Known) {
    c12_concurrent_depth(ctx);
    let n = budget(ctx, 250, 6000);
    let mut fresh = Driver::spawn_cmd(&std::env::current_exe().unwrap().to_string_lossy(), &["serve"]).expect("serve");
    // (0) loading is a function of the rule text alone: a rule's verdicts do not depend on which
    //     rules this process loaded before it (same regex text under the other case flag, same
    //     needles under another match kind), and a process that never saw the other rule agrees
    let npairs = budget(ctx, 12, 120);
    for k in 0..npairs {
        let mut r = Rng::new(ctx.seed.wrapping_mul(977).wrapping_add(k as u64));
        let word = format!("{}{}{}", r.pick(&["ab", "evil", "Cmd", "x"]), k, r.pick(&["c", "Z", ".exe"]));
        let variants: Vec<String> = match r.below(3) {
            0 => vec![format!("?{}", word), format!("i?{}", word)],
            1 => vec![format!("?^{}$", word), format!("i?^{}$", word), format!("?{}", word)],
            _ => vec![format!("{}*", word), format!("i{}*", word), format!("*{}", word), format!("i*{}", word)],
        };
        let mut order: Vec<usize> = (0..variants.len()).collect();
        if k % 2 == 1 {
            order.reverse();
        }
        let docs: Vec<Yaml> = vec![
            map1("s", ys(&word)), map1("s", ys(&word.to_uppercase())), map1("s", ys(&word.to_lowercase())),
            map1("s", ys(&format!("x{}y", word))), map1("s", ys(&format!("{}y", word.to_uppercase()))), map1("s", ys(&format!("x{}", word.to_lowercase()))),
        ];
        for &vi in &order {
            let c = case_of(vec![("A".into(), map1("s", ys(&variants[vi]))), ("condition".into(), ys("A"))], docs.clone(), vec![0, 15, 4]);
            let (ex, parsed) = run_rule_case(ctx, &c, false);
            if !matches!(parsed, Some(ref p) if p.load == "ok") {
                continue;
            }
            let ry = rule_yaml(&c);
            if let Ok(mut brand_new) = Driver::spawn_cmd(&std::env::current_exe().unwrap().to_string_lossy(), &["serve"]) {
                let other = brand_new.ask(&ex.line);
                if other != ex.imp && !other.starts_with("DRIVER") {
                    ctx.violation("oracle", &format!("rule `s: {}` loaded after {:?} in this process answers differently from a process that loaded only this rule: {}", variants[vi], order.iter().take_while(|&&o| o != vi).map(|&o| variants[o].clone()).collect::<Vec<_>>(), first_diff(&ex.imp, &other)), &ex, &ry, true);
                }
            }
            ctx.nontrivial.insert(hash_str(&ex.line));
        }
    }
    // (0b) a rule text always loads to the same thing: repeated loads of one text (also a text the
    //      loader rejects, e.g. one without a condition) give the same outcome every time
    {
        let texts: Vec<(String, CaseReq)> = (0..budget(ctx, 6, 40)).map(|k| {
            let mut r = Rng::new(ctx.seed.wrapping_mul(1201).wrapping_add(k as u64));
            let mut c = gen_case(&mut r, vec![0, 15], 2);
            if k % 2 == 0 {
                c.det.retain(|(n, _)| n != "condition");
                c.det.push(("Zb".into(), map1("n", Yaml::Number(3u64.into()))));
                c.det.push(("Za".into(), mapn2(vec![("s", ys("x")), ("n", Yaml::Number(1u64.into()))])));
            }
            (format!("repeat-load:{}", k), c)
        }).collect();
        for (name, c) in texts {
            let text = serde_yaml::to_string(&implside::rule_value(&c)).unwrap_or_default();
            let mut outcomes: Vec<String> = vec![];
            for _ in 0..8 {
                outcomes.push(match Rule::from_str(&text) {
                    Ok(r) => format!("ok {} {}", r.detection.expression, implside::ids_sx(&r.detection.identifiers)),
                    Err(e) => format!("err {}", implside::load_err_class(&e)),
                });
            }
            let (ex, _) = run_rule_case(ctx, &c, false);
            ctx.nontrivial.insert(hash_str(&text));
            if outcomes.iter().any(|o| *o != outcomes[0]) {
                let mut uniq = outcomes.clone();
                uniq.sort();
                uniq.dedup();
                ctx.violation("oracle", &format!("{}: loading one rule text 8 times gives {} different outcomes: {}", name, uniq.len(), trunc(&uniq.join(" | "), 400)), &ex, &text, true);
            }
        }
    }
    // a process started in a LOUD environment: every variable the engine's source so much as names
    // (upper-case string literals in /repo/src) is set, next to the usual suspects — the engine is a
    // function of (rule text, switches, document), not of the environment
    let mut loud_env: Vec<(String, String)> = [("RUST_LOG", "trace"), ("LANG", "tr_TR.UTF-8"), ("LC_ALL", "tr_TR.UTF-8"), ("TZ", "Pacific/Kiritimati"), ("NO_COLOR", "1"), ("RUST_BACKTRACE", "0"), ("TAU_ENGINE", "1"), ("TAU", "1"), ("DEBUG", "1"), ("CI", "1")].iter().map(|(k, v)| (k.to_string(), v.to_string())).collect();
    {
        fn scan(dir: &std::path::Path, out: &mut Vec<String>) {
            if let Ok(rd) = std::fs::read_dir(dir) {
                for e in rd.flatten() {
                    let p = e.path();
                    if p.is_dir() {
                        scan(&p, out);
                    } else if p.extension().map(|x| x == "rs").unwrap_or(false) {
                        if let Ok(t) = std::fs::read_to_string(&p) {
                            for piece in t.split('"').skip(1).step_by(2) {
                                if piece.len() >= 3 && piece.len() <= 48 && piece.chars().next().map(|c| c.is_ascii_uppercase()).unwrap_or(false) && piece.chars().all(|c| c.is_ascii_uppercase() || c.is_ascii_digit() || c == '_') {
                                    out.push(piece.to_string());
                                }
                            }
                        }
                    }
                }
            }
        }
        let mut names = vec![];
        scan(std::path::Path::new("/repo/src"), &mut names);
        names.sort();
        names.dedup();
        for n in names {
            for v in ["1"] {
                loud_env.push((n.clone(), v.to_string()));
            }
        }
    }
    ctx.stat(&format!("loud-env-variables-{}", loud_env.len()));
    let mut loud = Driver::spawn_cmd_env(&std::env::current_exe().unwrap().to_string_lossy(), &["serve"], &loud_env).ok();
    c12_history(ctx);
    c12_twins(ctx);
    c12_logging(ctx);
    c12_maps_and_files(ctx);
    c12_passes_and_races(ctx);
    c12_lifecycle(ctx);
    for i in 0..n {
        let mut r = Rng::new(ctx.seed.wrapping_mul(613).wrapping_add(i as u64));
        let mut c = gen_case(&mut r, vec![0, 15, 10, 7], 5);
        if i % 4 == 0 {
            // long needle lists: the per-needle counting paths keep per-call state
            let (det, mut docs) = gen::gen_special_kind(&mut r, 2);
            while docs.len() < 5 {
                docs.push(gen::gen_doc(&mut r));
            }
            c = CaseReq { optimised: false, det, tps: vec![], tns: vec![], docs, masks: vec![0, 15, 10, 7] };
        }
        let (ex, parsed) = run_rule_case(ctx, &c, false);
        let p = match parsed {
            Some(p) if p.load == "ok" => p,
            _ => continue,
        };
        let ry = rule_yaml(&c);
        // (a) another process gives the same reply
        let other = fresh.ask(&ex.line);
        if other != ex.imp {
            ctx.violation("oracle", &format!("a fresh process answers differently: {}", first_diff(&ex.imp, &other)), &ex, &ry, true);
            continue;
        }
        if let Some(l) = loud.as_mut() {
            let other = l.ask(&ex.line);
            if other != ex.imp && other != "DRIVER-DEAD" {
                ctx.violation("oracle", &format!("a process started with other environment variables answers differently: {}", first_diff(&ex.imp, &other)), &ex, &ry, true);
                continue;
            }
        }
        let rule = match Rule::from_value(implside::rule_value(&c)) {
            Ok(r) => r,
            Err(_) => continue,
        };
        // (b) repeated optimise calls print the same expression
        let first = rule.clone().optimise(implside::opts(15));
        let printed = format!("{} {}", first.detection.expression, implside::ids_sx(&first.detection.identifiers));
        for _ in 0..12 {
            let again = rule.clone().optimise(implside::opts(15));
            let pr = format!("{} {}", again.detection.expression, implside::ids_sx(&again.detection.identifiers));
            if pr != printed {
                ctx.violation("oracle", &format!("two optimise() calls print different expressions:\n {}\n {}", trunc(&printed, 300), trunc(&pr, 300)), &ex, &ry, true);
                break;
            }
        }
        // (c) 16 threads sharing one rule, each with its own document order, and repeated matching
        let shared = Arc::new(first);
        let docs: Arc<Vec<Mapping>> = Arc::new(c.docs.iter().filter_map(|d| d.as_mapping().cloned()).collect());
        let expect: Vec<bool> = verdicts_of(&p, 15);
        let mut handles = vec![];
        for t in 0..16usize {
            let rl = Arc::clone(&shared);
            let ds = Arc::clone(&docs);
            handles.push(std::thread::spawn(move || {
                let mut out = vec![false; ds.len()];
                for round in 0..3 {
                    for k in 0..ds.len() {
                        let j = (k + t + round) % ds.len();
                        out[j] = rl.matches(&ds[j]);
                    }
                }
                out
            }));
        }
        for h in handles {
            match h.join() {
                Ok(v) => {
                    if v != expect {
                        ctx.violation("oracle", &format!("a thread sharing the rule got verdicts {:?}, the single-threaded run {:?}", v, expect), &ex, &ry, true);
                        break;
                    }
                }
                Err(_) => {
                    ctx.violation("oracle", "a matching thread panicked", &ex, &ry, true);
                    break;
                }
            }
        }
        // (c') one thread, documents matched backwards and then repeatedly: same verdicts
        {
            let n = docs.len();
            let mut back = vec![false; n];
            for j in (0..n).rev() {
                back[j] = shared.matches(&docs[j]);
            }
            let mut again = vec![false; n];
            for _ in 0..2 {
                for j in 0..n {
                    again[j] = shared.matches(&docs[j]);
                }
            }
            if back != expect || again != expect {
                ctx.violation("oracle", &format!("verdicts depend on which documents were matched before: first pass {:?}, backwards {:?}, repeated {:?}", expect, back, again), &ex, &ry, true);
            }
        }
        // (c'') every document matched in isolation on a brand-new thread (no earlier matches there)
        {
            let mut isolated = vec![];
            for j in 0..docs.len() {
                let rl = Arc::clone(&shared);
                let ds = Arc::clone(&docs);
                let h = std::thread::spawn(move || rl.matches(&ds[j]));
                isolated.push(h.join().unwrap_or(false));
            }
            if isolated != expect {
                ctx.violation("oracle", &format!("a verdict depends on which documents were matched before on the same thread: in isolation {:?}, after other documents {:?}", isolated, expect), &ex, &ry, true);
            }
        }
        // (d) matching does not modify the rule: the printed rule is unchanged afterwards
        let after = format!("{} {}", shared.detection.expression, implside::ids_sx(&shared.detection.identifiers));
        if after != printed {
            ctx.violation("oracle", "the rule prints differently after matching", &ex, &ry, true);
        }
        ctx.nontrivial.insert(hash_str(&ex.line));
        if ctx.samples.len() < 6 {
            ctx.sample(json!({"rule": ry, "optimised": trunc(&printed, 300), "threads": 16, "repeat_optimise": 12}));
        }
    }
}

/// (t) Rules holding identifiers with equal (or nearly equal) bodies: every fresh load, optimised
/// with every switch combination that keeps the identifiers apart (no coalesce) or not, prints the
/// same and gives the verdicts of the unoptimised rule — whatever order the identifier map hands
/// its entries out in (it is seeded per load).
fn c12_twins(ctx: &mut Ctx) {
    let rules = [
        "detection:\n  proc_a:\n    cmd: [whoami, hostname]\n  proc_b:\n    cmd: [whoami, hostname]\n  condition: proc_a or proc_b\n",
        "detection:\n  proc_a:\n    cmd: [iwhoami, ihostname]\n  proc_b:\n    cmd: [whoami, hostname]\n  condition: proc_a and not proc_b\n",
        "detection:\n  x1:\n    f: 'a*'\n  x2:\n    f: 'a*'\n  x3:\n    f: 'ia*'\n  x4:\n    str(f): 'a*'\n  condition: (x1 and x2) or (x3 and not x4)\n",
        "detection:\n  p:\n    f: ['?^a', '?b$']\n  q:\n    f: ['?(?i)^a', '?b$']\n  r:\n    f: ['i?^a', 'i?b$']\n  condition: of(p, 1) and (q or r) and not all(p)\n",
        "detection:\n  m1:\n    - f: a\n      g: b\n    - f: c\n      g: d\n  m2:\n    - f: a\n      g: b\n    - f: c\n      g: d\n  condition: m1 and m2\n",
        // members written twice
        "detection:\n  A:\n    cmd: ['*whoami*', '*x*', '*whoami*', '*host*', '*x*']\n  condition: A\n",
        "detection:\n  A:\n    cmd: ['i*WhoAmI*', 'i*whoami*', 'i*host*', 'i*WHOAMI*']\n  condition: A\n",
        "detection:\n  A:\n    cmd: ['?^who', '?ami$', '?^who', '?x', '?ami$']\n  B:\n    f: [a, a, b, a]\n  condition: A or B\n",
        "detection:\n  A:\n    all(cmd): ['*whoami*', '*x*', '*whoami*']\n  B:\n    of(cmd, 2): ['*who*', '*who*', '*ami*']\n  condition: A or B\n",
    ];
    let docs_txt = ["{cmd: WHOAMI}", "{cmd: whoami}", "{cmd: x}", "{f: a}", "{f: A}", "{f: ab}", "{f: Ab}", "{f: xb}", "{f: 1}", "{f: a, g: b}", "{f: c, g: d}", "{f: a, g: d}", "{}"];
    let docs: Vec<Mapping> = docs_txt.iter().map(|t| serde_yaml::from_str::<Mapping>(t).expect("doc")).collect();
    for text in rules.iter() {
        let text = format!("{}true_positives: []\ntrue_negatives: []\n", text);
        let dummy = Exchange { line: format!("twins {}", hash_str(&text)), imp: String::new(), model: String::new(), agree: true, supported: false };
        let plain: Vec<bool> = match Rule::from_str(&text) {
            Ok(r) => docs.iter().map(|d| r.matches(d)).collect(),
            Err(_) => continue,
        };
        ctx.nontrivial.insert(hash_str(&text));
        for mask in [2u64, 6, 10, 14, 8, 4, 15, 3] {
            let mut first: Option<(String, Vec<bool>)> = None;
            for _ in 0..24 {
                ctx.evaluations += 1;
                let r = match Rule::from_str(&text) {
                    Ok(r) => r.optimise(implside::opts(mask)),
                    Err(_) => break,
                };
                let printed = format!("{} {}", r.detection.expression, implside::ids_sx(&r.detection.identifiers));
                let got: Vec<bool> = docs.iter().map(|d| r.matches(d)).collect();
                match &first {
                    None => first = Some((printed, got)),
                    Some((p0, g0)) => {
                        if *g0 != got {
                            let j = (0..docs.len()).find(|j| got[*j] != g0[*j]).unwrap_or(0);
                            ctx.violation("oracle", &format!("two loads of one rule text, optimised with mask {}, give different verdicts on {}: {} and {} (unoptimised: {})", mask, docs_txt[j], g0[j], got[j], plain[j]), &dummy, &text, true);
                            break;
                        }
                        if *p0 != printed {
                            ctx.violation("oracle", &format!("two loads of one rule text, optimised with mask {}, print differently:\n {}\n {}", mask, trunc(p0, 300), trunc(&printed, 300)), &dummy, &text, true);
                            break;
                        }
                    }
                }
            }
        }
    }
}

/// A subscriber that enables everything and keeps nothing: with it installed the engine's `debug!`
/// lines evaluate their arguments.
pub struct AllOn;
impl tracing::Subscriber for AllOn {
    fn enabled(&self, _: &tracing::Metadata<'_>) -> bool { true }
    fn new_span(&self, _: &tracing::span::Attributes<'_>) -> tracing::span::Id { tracing::span::Id::from_u64(1) }
    fn record(&self, _: &tracing::span::Id, _: &tracing::span::Record<'_>) {}
    fn record_follows_from(&self, _: &tracing::span::Id, _: &tracing::span::Id) {}
    fn event(&self, event: &tracing::Event<'_>) {
        // format the fields, as a real subscriber would
        struct V(usize);
        impl tracing::field::Visit for V {
            fn record_debug(&mut self, _: &tracing::field::Field, value: &dyn std::fmt::Debug) { self.0 += format!("{:?}", value).len(); }
        }
        let mut v = V(0);
        event.record(&mut v);
    }
    fn enter(&self, _: &tracing::span::Id) {}
    fn exit(&self, _: &tracing::span::Id) {}
}

/// (l) Loading, optimising and matching do not depend on whether a logging subscriber is installed.
fn c12_logging(ctx: &mut Ctx) {
    let n = budget(ctx, 150, 3000);
    let fixed = [
        ("detection:\n  A:\n    f:\n      k: a\n  condition: A\n", vec!["{f: [{k: a}, {k: b}]}", "{f: [{k: b}, {k: a}]}", "{f: {k: a}}", "{f: []}", "{f: [{k: b}]}"]),
        ("detection:\n  A:\n    f:\n      k: a\n      j: 1\n  condition: not A\n", vec!["{f: [{k: a, j: 1}, {k: b}]}", "{f: [{k: a}, {k: a, j: 1}]}", "{f: 3}"]),
        ("detection:\n  A:\n    f: ['a*', '*b']\n  B:\n    g: 1\n  condition: all(A) or int(g) > 0 and not B\n", vec!["{f: ab, g: 1}", "{f: [ax, xb], g: 0}", "{g: x}", "{}"]),
    ];
    let mut cases: Vec<(String, Vec<Mapping>)> = fixed.iter().map(|(t, ds)| (format!("{}true_positives: []\ntrue_negatives: []\n", t), ds.iter().map(|d| serde_yaml::from_str::<Mapping>(d).unwrap()).collect())).collect();
    for i in 0..n {
        let mut r = Rng::new(ctx.seed.wrapping_mul(877).wrapping_add(i as u64));
        let c = if i % 3 == 0 { let (det, docs) = gen::gen_special_kind(&mut r, 9); CaseReq { optimised: false, det, tps: vec![], tns: vec![], docs, masks: vec![0] } } else { gen_case(&mut r, vec![0], 4) };
        if let Ok(text) = serde_yaml::to_string(&implside::rule_value(&c)) {
            cases.push((text, c.docs.iter().filter_map(|d| d.as_mapping().cloned()).collect()));
        }
    }
    for (text, docs) in cases {
        let dummy = Exchange { line: format!("logging {}", hash_str(&text)), imp: String::new(), model: String::new(), agree: true, supported: false };
        for mask in [0u64, 15, 14] {
            let quiet = match Rule::from_str(&text) { Ok(r) => if mask == 0 { r } else { r.optimise(implside::opts(mask)) }, Err(_) => break };
            let loud = tracing::subscriber::with_default(AllOn, || Rule::from_str(&text).map(|r| if mask == 0 { r } else { r.optimise(implside::opts(mask)) }));
            let loud = match loud { Ok(r) => r, Err(_) => { ctx.violation("oracle", "a rule that loads stops loading when a logging subscriber is installed", &dummy, &text, true); break } };
            ctx.nontrivial.insert(hash_str(&text));
            let pq = format!("{} {}", quiet.detection.expression, implside::ids_sx(&quiet.detection.identifiers));
            let pl = format!("{} {}", loud.detection.expression, implside::ids_sx(&loud.detection.identifiers));
            if pq != pl {
                ctx.violation("oracle", &format!("mask {}: the rule loaded with a logging subscriber installed prints differently", mask), &dummy, &text, true);
                break;
            }
            for d in &docs {
                ctx.evaluations += 1;
                let a = quiet.matches(d);
                let b = tracing::subscriber::with_default(AllOn, || quiet.matches(d));
                let c2 = quiet.matches(d);
                if a != b || a != c2 {
                    ctx.violation("oracle", &format!("mask {}: document {} gives {} without and {} with a logging subscriber installed", mask, serde_yaml::to_string(d).unwrap_or_default().replace('\n', " "), a, b), &dummy, &text, true);
                    break;
                }
            }
        }
    }
}

/// (m) Equal documents give equal verdicts whatever order their map hands its keys out in (a HashMap is
/// seeded per instance); and `Rule::load` is a function of the file's text, not of what the path held
/// earlier.
fn c12_maps_and_files(ctx: &mut Ctx) {
    let dummy = |what: &str| Exchange { line: format!("maps-files {}", what), imp: String::new(), model: String::new(), agree: true, supported: false };
    let rules = [
        "commandline: '*evil*'", "CommandLine: '*evil*'", "proc.Name: cmd", "Proc:\n      name: cmd", "A_key: x",
    ];
    let docs: Vec<Vec<(&str, &str)>> = vec![
        vec![("CommandLine", "evil thing"), ("Commandline", "good thing"), ("COMMANDLINE", "other")],
        vec![("commandLine", "good"), ("COMMANDLINE", "very evil")],
        vec![("a_key", "x"), ("A_KEY", "y"), ("a_Key", "z")],
        vec![("CommandLine", "evil thing"), ("commandline", "good thing")],
    ];
    for body in rules.iter() {
        for cond in ["A", "not A"] {
            let text = format!("detection:\n  A:\n    {}\n  condition: {}\ntrue_positives: []\ntrue_negatives: []\n", body, cond);
            let rule = match Rule::from_str(&text) { Ok(r) => r, Err(_) => continue };
            for kvs in &docs {
                let ym: Mapping = kvs.iter().map(|(k, v)| (ys(k), ys(v))).collect();
                let base = rule.matches(&ym);
                ctx.nontrivial.insert(hash_str(&format!("hm{}{}{:?}", body, cond, kvs)));
                for i in 0..32 {
                    ctx.evaluations += 1;
                    let mut hm: HashMap<String, String> = HashMap::new();
                    // insertion order varies as well
                    for j in 0..kvs.len() {
                        let (k, v) = kvs[(j + i) % kvs.len()];
                        hm.insert(k.to_string(), v.to_string());
                    }
                    let got = rule.matches(&hm);
                    if got != base {
                        ctx.violation("oracle", &format!("the document {:?} gives {} as a YAML mapping but {} as one of 32 equal HashMap instances", kvs, base, got), &dummy("hashmap"), &text, true);
                        break;
                    }
                }
            }
        }
    }
    // Rule::load: the same path, rewritten with a text of the same length and the same modification time
    let dir = std::env::temp_dir().join(format!("tauh_c12_{}_{}", std::process::id(), ctx.seed));
    if std::fs::create_dir_all(&dir).is_ok() {
        let path = dir.join("rule.yml");
        let mk = |exe: &str| format!("detection:\n  A:\n    image: '*\\{}.exe'\n  condition: A\ntrue_positives: []\ntrue_negatives: []\n", exe);
        let d_cmd: Mapping = serde_yaml::from_str("{image: 'C:\\cmd.exe'}").unwrap();
        let d_wsl: Mapping = serde_yaml::from_str("{image: 'C:\\wsl.exe'}").unwrap();
        let mut ok = true;
        let mut stamp: Option<std::time::SystemTime> = None;
        for (round, exe) in ["cmd", "wsl", "cmd", "zsh"].iter().enumerate() {
            let text = mk(exe);
            if std::fs::write(&path, &text).is_err() { ok = false; break; }
            if let Ok(f) = std::fs::OpenOptions::new().write(true).open(&path) {
                match stamp {
                    None => stamp = f.metadata().ok().and_then(|m| m.modified().ok()),
                    Some(t) => { let _ = f.set_modified(t); }
                }
            }
            ctx.evaluations += 1;
            let loaded = Rule::load(&path);
            let direct = Rule::from_str(&text);
            match (loaded, direct) {
                (Ok(a), Ok(b)) => {
                    let pa = format!("{} {}", a.detection.expression, implside::ids_sx(&a.detection.identifiers));
                    let pb = format!("{} {}", b.detection.expression, implside::ids_sx(&b.detection.identifiers));
                    if pa != pb || a.matches(&d_cmd) != b.matches(&d_cmd) || a.matches(&d_wsl) != b.matches(&d_wsl) {
                        ctx.violation("oracle", &format!("Rule::load of a file whose text is now {:?} (write {} to the same path, same length, same modification time) gives the rule {} instead of {}", exe, round + 1, trunc(&pa, 200), trunc(&pb, 200)), &dummy("load"), &text, true);
                        break;
                    }
                }
                (a, b) => {
                    if a.is_ok() != b.is_ok() {
                        ctx.violation("oracle", "Rule::load and Rule::from_str disagree on whether the file's text loads", &dummy("load"), &text, true);
                        break;
                    }
                }
            }
        }
        let _ = ok;
        let _ = std::fs::remove_dir_all(&dir);
        ctx.nontrivial.insert(hash_str("rule-load"));
    }
}

/// (o) `Rule::optimise` is the composition of the four passes and nothing else (not the clock, not the
/// size of the rule), also for a rule that takes long to optimise; and verdicts of one optimised rule
/// are the same when 16 threads evaluate it at the same time, for the casts that format numbers.
fn c12_passes_and_races(ctx: &mut Ctx) {
    use tau_engine::core::optimiser;
    let dummy = |what: &str| Exchange { line: format!("passes {}", what), imp: String::new(), model: String::new(), agree: true, supported: false };
    for big in [2usize, 40, 300, 600] {
        // several identifiers of `big` heavy regexes each (one list of all of them would exceed the
        // regex crate's size limit at load)
        let mut blocks = String::new();
        let mut names: Vec<String> = vec![];
        for k in 0..4 {
            let mut pats: Vec<String> = vec![];
            for i in 0..big {
                pats.push(format!("'?.*(a|b){{1,40}}x{}y[0-9a-f]{{8,64}}.*'", i + 1000 * k));
            }
            blocks.push_str(&format!("  H{}:\n    h{}: [{}]\n", k, k, pats.join(", ")));
            names.push(format!("H{}", k));
        }
        let text = format!("detection:\n{}  B:\n    - f: a\n      g: b\n    - f: c\n      g: d\n  C:\n    g: '?.*tail'\n  condition: {} or B or C\ntrue_positives: []\ntrue_negatives: []\n", blocks, names.join(" or "));
        let rule = match Rule::from_str(&text) { Ok(r) => r, Err(_) => continue };
        ctx.evaluations += 1;
        ctx.nontrivial.insert(hash_str(&format!("passes{}", big)));
        let whole = rule.clone().optimise(implside::opts(15));
        let by_hand = {
            let e = optimiser::coalesce(rule.detection.expression.clone(), &rule.detection.identifiers);
            let e = optimiser::shake(e);
            let e = optimiser::rewrite(e);
            optimiser::matrix(e)
        };
        if format!("{}", whole.detection.expression) != format!("{}", by_hand) {
            ctx.violation("oracle", &format!("Rule::optimise (all switches) on a rule with {} regexes does not print what coalesce, shake, rewrite, matrix applied one after the other print: {} vs {}", big, trunc(&format!("{}", whole.detection.expression), 200), trunc(&format!("{}", by_hand), 200)), &dummy("compose"), &trunc(&text, 2000), true);
        }
    }
    // repeated optimise() of rules whose optimisation has much to build (hundreds of needles over
    // several fields, blocks of equal size so that no sort decides their order): one print, from
    // this thread and from others
    for (fields, per, mode) in [(6usize, 60usize, 0usize), (6, 60, 1), (6, 60, 2), (3, 50, 0), (2, 200, 1), (8, 17, 0), (4, 90, 2)] {
        let mut text = String::from("detection:\n  A:\n");
        for fi in 0..fields {
            text.push_str(&format!("  - fld{}:\n", fi));
            for k in 0..per {
                let kind = match mode { 0 => 0, 1 => k % 3, _ => k % 4 };
                let pat = match kind { 0 => format!("'*f{}-needle-{:04}-padding-padding-padding*'", fi, k), 1 => format!("'f{}-start-{:04}-padding-padding-padding*'", fi, k), 2 => format!("'*f{}-end-{:04}-padding-padding-padding'", fi, k), _ => format!("'i*F{}-ci-{:04}-padding-padding*'", fi, k) };
                text.push_str(&format!("    - {}\n", pat));
            }
        }
        text.push_str("  B:\n    other: x\n  condition: A or B\ntrue_positives: []\ntrue_negatives: []\n");
        let rule = match Rule::from_str(&text) { Ok(r) => r, Err(_) => continue };
        ctx.evaluations += 1;
        ctx.nontrivial.insert(hash_str(&format!("bigopt{}x{}m{}", fields, per, mode)));
        // documents that tell the kinds of the members apart: the needle text in front, in the
        // middle and at the end of the value
        let mut vdocs: Vec<Mapping> = vec![];
        for fi in 0..fields.min(2) {
            for k in 0..per.min(8) {
                let kind = match mode { 0 => 0, 1 => k % 3, _ => k % 4 };
                let needle = match kind { 0 => format!("f{}-needle-{:04}-padding-padding-padding", fi, k), 1 => format!("f{}-start-{:04}-padding-padding-padding", fi, k), 2 => format!("f{}-end-{:04}-padding-padding-padding", fi, k), _ => format!("f{}-CI-{:04}-padding-padding", fi, k) };
                for v in [format!("xx{}yy", needle), format!("{}yy", needle), format!("xx{}", needle)] {
                    let mut m = Mapping::new();
                    m.insert(ys(&format!("fld{}", fi)), ys(&v));
                    vdocs.push(m);
                }
            }
        }
        for mask in [15u64, 2, 3] {
            let first = rule.clone().optimise(implside::opts(mask));
            let reference = format!("{}", first.detection.expression);
            // (whether these verdicts equal the plain rule's is C01's question, not asked here)
            let plain_verdicts: Vec<bool> = vdocs.iter().map(|d| first.matches(d)).collect();
            let mut differs: Option<String> = None;
            for _ in 0..24 {
                let o = rule.clone().optimise(implside::opts(mask));
                let p = format!("{}", o.detection.expression);
                if p != reference && differs.is_none() { differs = Some(p); }
                let vs: Vec<bool> = vdocs.iter().map(|d| o.matches(d)).collect();
                if vs != plain_verdicts && differs.is_none() {
                    let j = (0..vs.len()).find(|j| vs[*j] != plain_verdicts[*j]).unwrap_or(0);
                    differs = Some(format!("same print, but the verdict on {:?} is {} (first optimise call: {})", vdocs[j], vs[j], plain_verdicts[j]));
                }
            }
            let handles: Vec<_> = (0..8).map(|_| { let r2 = rule.clone(); std::thread::spawn(move || format!("{}", r2.optimise(implside::opts(mask)).detection.expression)) }).collect();
            for h in handles {
                if let Ok(p) = h.join() {
                    if p != reference && differs.is_none() { differs = Some(p); }
                }
            }
            if let Some(p) = differs {
                ctx.violation("oracle", &format!("optimise() (mask {}) of one rule ({} fields x {} needles) printed two different expressions: {} vs {}", mask, fields, per, first_diff(&reference, &p), trunc(&p, 120)), &dummy("reprint"), &trunc(&text, 1500), true);
                break;
            }
        }
    }
    // optimise() is a function of (rule, switches) — not of the switches of OTHER optimise calls: every
    // switch combination printed in ascending order, in descending order, and while other threads
    // optimise the same rule with all switches on
    for text in [
        "detection:\n  A:\n    f: ['?.*foo', '?bar.*', '?.*baz.*']\n  B:\n    f: '?.*qux'\n  C:\n    g: ['a*', '*b']\n  condition: A or B or C\ntrue_positives: []\ntrue_negatives: []\n",
        "detection:\n  A:\n  - f: '?.*foo'\n  - f: 'i?bar.*'\n  - f: '?^.*baz$'\n  - g: x\n    f: '?.*x.*'\n  condition: A\ntrue_positives: []\ntrue_negatives: []\n",
        "detection:\n  A:\n    f: '?.*foo.*'\n  B:\n    f: '?.*bar'\n  C:\n    f: ['*a*', 'b*']\n  D:\n    h: 1\n  condition: (A or B or C) and not D\ntrue_positives: []\ntrue_negatives: []\n",
    ] {
        let rule = match Rule::from_str(text) { Ok(r) => r, Err(_) => continue };
        ctx.evaluations += 48;
        ctx.nontrivial.insert(hash_str(&format!("switch-leak{}", text)));
        let print = |m: u64| -> String { let o = rule.clone().optimise(implside::opts(m)); format!("{} {}", o.detection.expression, implside::ids_sx(&o.detection.identifiers)) };
        let up: Vec<String> = (0..16u64).map(|m| print(m)).collect();
        let down: Vec<String> = (0..16u64).rev().map(|m| print(m)).collect::<Vec<_>>().into_iter().rev().collect();
        let stop = Arc::new(std::sync::atomic::AtomicBool::new(false));
        let noise: Vec<_> = (0..4).map(|_| { let r2 = rule.clone(); let st = Arc::clone(&stop); std::thread::spawn(move || { while !st.load(std::sync::atomic::Ordering::Relaxed) { let _ = r2.clone().optimise(crate::implside::opts(15)); let _ = r2.clone().optimise(crate::implside::opts(4)); } }) }).collect();
        let mut busy: Vec<String> = vec![];
        for _ in 0..20 {
            busy = (0..16u64).map(|m| print(m)).collect();
            if busy != up { break; }
        }
        stop.store(true, std::sync::atomic::Ordering::Relaxed);
        for h in noise { let _ = h.join(); }
        for m in 0..16usize {
            if up[m] != down[m] || up[m] != busy[m] {
                ctx.violation("oracle", &format!("optimise() with switches {} prints differently depending on the optimise calls made before or at the same time: {} | {} | {}", m, trunc(&up[m], 200), trunc(&down[m], 200), trunc(&busy[m], 200)), &dummy("switch-leak"), text, true);
                break;
            }
        }
    }
    // loading does not depend on what FAILED to load before on the same thread: 400 failed loads
    // (errors at several depths of the identifier block, in the condition, in the YAML), then texts
    // that load — compared with the same texts loaded on a fresh thread
    {
        let bad = [
            "detection:\n  A:\n    process:\n      parent:\n        image: '?(unclosed'\n  condition: A\ntrue_positives: []\ntrue_negatives: []\n",
            "detection:\n  A:\n    image: '?(unclosed'\n  condition: A\ntrue_positives: []\ntrue_negatives: []\n",
            "detection:\n  A:\n    a:\n      b:\n        c:\n          d:\n            int(e): x\n  condition: A\ntrue_positives: []\ntrue_negatives: []\n",
            "detection:\n  A:\n  - x: 1\n  - y:\n      z: !t q\n  condition: A\ntrue_positives: []\ntrue_negatives: []\n",
            "detection:\n  A:\n    f: x\n  condition: A and\ntrue_positives: []\ntrue_negatives: []\n",
            "detection:\n  A:\n    f: [x, {k: '?('}]\n  condition: A\ntrue_positives: []\ntrue_negatives: []\n",
            "detection: [\n",
            "detection:\n  A:\n    all(f): x\n  condition: B\n",
        ];
        let good = [
            "detection:\n  A:\n    process:\n      image: '*\\cmd.exe'\n      parent:\n        image: '*\\winword.exe'\n  condition: A\ntrue_positives: []\ntrue_negatives: []\n",
            "detection:\n  A:\n    f: x\n  condition: A\ntrue_positives: []\ntrue_negatives: []\n",
            "detection:\n  A:\n    a:\n      b:\n        c:\n          d:\n            e:\n              f: x\n  condition: not A\ntrue_positives: []\ntrue_negatives: []\n",
        ];
        let observe = |t: &str| -> String {
            match Rule::from_str(t) {
                Ok(r) => format!("ok {} | {}", r.detection.expression, r.clone().optimise(implside::opts(15)).detection.expression),
                Err(_) => "error".to_string(),
            }
        };
        let fresh: Vec<String> = good.iter().map(|g| { let g = g.to_string(); std::thread::spawn(move || match Rule::from_str(&g) { Ok(r) => format!("ok {} | {}", r.detection.expression, r.clone().optimise(crate::implside::opts(15)).detection.expression), Err(_) => "error".to_string() }).join().unwrap_or_default() }).collect();
        let handle = { let bad: Vec<String> = bad.iter().map(|b| b.to_string()).collect(); let good: Vec<String> = good.iter().map(|g| g.to_string()).collect();
            std::thread::spawn(move || {
                let mut out = vec![];
                for round in 0..50 {
                    for b in &bad {
                        let _ = std::panic::catch_unwind(|| Rule::from_str(b).is_ok());
                    }
                    if round % 10 == 9 {
                        for g in &good {
                            out.push(match Rule::from_str(g) { Ok(r) => format!("ok {} | {}", r.detection.expression, r.clone().optimise(crate::implside::opts(15)).detection.expression), Err(_) => "error".to_string() });
                        }
                    }
                }
                out
            }) };
        let _ = observe;
        ctx.evaluations += 400;
        ctx.nontrivial.insert(hash_str("failed-load-history"));
        match handle.join() {
            Ok(out) => {
                for (k, o) in out.iter().enumerate() {
                    let g = k % good.len();
                    if *o != fresh[g] {
                        ctx.violation("oracle", &format!("after {} failed loads on the same thread a rule text loads differently: {} (fresh thread: {})", 8 * 10 * (k / good.len() + 1), trunc(o, 200), trunc(&fresh[g], 200)), &dummy("failed-load-history"), good[g], true);
                        break;
                    }
                }
            }
            Err(_) => ctx.violation("oracle", "loading panicked in the failed-load history", &dummy("failed-load-history"), bad[0], true),
        }
    }
    // concurrent evaluation of number-formatting paths
    // concurrent evaluation of number-formatting paths
    let rules = [
        ("detection:\n  A:\n    str(vals): ['1000*', '*0000']\n  condition: of(A, 2)\n", 15u64),
        ("detection:\n  A:\n    str(vals): ['1000*', '*0000']\n  condition: all(A)\n", 15),
        ("detection:\n  A:\n    str(vals): ['1e16', '*e16']\n  condition: A\n", 0),
        ("detection:\n  A:\n    all(str(vals)): ['1000*', '*0000']\n  condition: A\n", 2),
    ];
    let docs: Arc<Vec<Mapping>> = Arc::new(["{vals: [1.0e16]}", "{vals: [1.0e16, 5]}", "{vals: 1.0e16}", "{vals: [2.5, 10000, 1.0e21]}", "{vals: [true, 10000000]}"].iter().map(|t| serde_yaml::from_str::<Mapping>(t).unwrap()).collect());
    for (t, mask) in rules.iter() {
        let text = format!("{}true_positives: []\ntrue_negatives: []\n", t);
        let rule = match Rule::from_str(&text) { Ok(r) => if *mask == 0 { r } else { r.optimise(implside::opts(*mask)) }, Err(_) => continue };
        let expect: Vec<bool> = docs.iter().map(|d| rule.matches(d)).collect();
        ctx.nontrivial.insert(hash_str(&text));
        let shared = Arc::new(rule);
        let mut handles = vec![];
        for t in 0..16usize {
            let rl = Arc::clone(&shared);
            let ds = Arc::clone(&docs);
            let ex = expect.clone();
            handles.push(std::thread::spawn(move || {
                let mut bad: Option<(usize, bool)> = None;
                for round in 0..4000usize {
                    let j = (round + t) % ds.len();
                    let v = rl.matches(&ds[j]);
                    if v != ex[j] && bad.is_none() {
                        bad = Some((j, v));
                    }
                }
                bad
            }));
        }
        let mut reported = false;
        for h in handles {
            if let Ok(Some((j, v))) = h.join() {
                if !reported {
                    reported = true;
                    ctx.violation("oracle", &format!("16 threads evaluating one rule at the same time: document {} gave {} on some thread, {} when evaluated alone", j, v, expect[j]), &dummy("race"), &text, true);
                }
            }
        }
        ctx.evaluations += 16 * 4000;
    }
}

/// (y) The life cycle of a rule value: cloning, validating, optimising a clone, optimising twice —
/// none of it changes what the rule (or its other copies) prints or matches.
fn c12_lifecycle(ctx: &mut Ctx) {
    let n = budget(ctx, 200, 4000);
    for i in 0..n {
        let mut r = Rng::new(ctx.seed.wrapping_mul(389).wrapping_add(i as u64));
        let c = gen_case(&mut r, vec![0], 5);
        let rule = match Rule::from_value(implside::rule_value(&c)) { Ok(r) => r, Err(_) => continue };
        let docs: Vec<&Mapping> = c.docs.iter().filter_map(|d| d.as_mapping()).collect();
        let show = |r: &Rule| -> String { format!("{} {}", r.detection.expression, implside::ids_sx(&r.detection.identifiers)) };
        let verd = |r: &Rule| -> Vec<bool> { docs.iter().map(|d| r.matches(*d)).collect() };
        let dummy = Exchange { line: format!("lifecycle {}", i), imp: String::new(), model: String::new(), agree: true, supported: false };
        ctx.evaluations += 1;
        ctx.nontrivial.insert(hash_str(&case::case_line(false, &c)));
        let p0 = show(&rule);
        let v0 = verd(&rule);
        let mut bad: Option<String> = None;
        // validate, then match; clone, then match
        let _ = rule.validate();
        if verd(&rule) != v0 || show(&rule) != p0 { bad = Some("validate() changed what the rule prints or matches".into()); }
        let cl = rule.clone();
        if verd(&cl) != v0 || show(&cl) != p0 { bad = Some("a clone prints or matches differently".into()); }
        for (m1, m2) in [(15u64, 15u64), (15, 2), (2, 15), (3, 12), (8, 7), (1, 14)] {
            let once = rule.clone().optimise(implside::opts(m1));
            let (p1, v1) = (show(&once), verd(&once));
            let twice = once.clone().optimise(implside::opts(m2));
            if show(&twice) != p1 || verd(&twice) != v1 {
                bad = Some(format!("optimising an optimised rule again (switches {} then {}) changes what it prints or matches", m1, m2));
            }
            let _ = once.validate();
            if verd(&once) != v1 || show(&once) != p1 { bad = Some(format!("validate() changed an optimised rule (switches {})", m1)); }
            if show(&rule) != p0 || verd(&rule) != v0 { bad = Some(format!("optimising a clone (switches {}) changed the original", m1)); }
        }
        // a rule that has been used (validate, matches, clone) optimises to what a freshly loaded
        // rule optimises to, for every switch combination: nothing the solver may have kept from
        // earlier evaluations takes part in optimise()
        for m in 0..16u64 {
            let fresh = match Rule::from_value(implside::rule_value(&c)) { Ok(r) => r.optimise(implside::opts(m)), Err(_) => break };
            let used = rule.clone().optimise(implside::opts(m));
            let _ = rule.matches(*docs.first().unwrap_or(&&Mapping::new()));
            let used2 = { let r2 = Rule::from_value(implside::rule_value(&c)).unwrap(); for d in &docs { let _ = r2.matches(*d); } r2.optimise(implside::opts(m)) };
            if show(&fresh) != show(&used) || verd(&fresh) != verd(&used) || show(&fresh) != show(&used2) || verd(&fresh) != verd(&used2) {
                bad = Some(format!("optimise (switches {}) of a rule that was matched / validated before differs from optimise of a freshly loaded rule: fresh {} / used {} / matched-only {}", m, show(&fresh), show(&used), show(&used2)));
                break;
            }
        }
        if let Some(what) = bad {
            ctx.violation("oracle", &what, &dummy, &rule_yaml(&c), true);
        }
    }
}

/// (h) History independence, deterministically: every ordered pair of documents, matched one after
/// the other on a brand-new thread, gets the verdicts the documents get in isolation — over the rule
/// shapes that format, cast, count or cache something per evaluation (str()/int()/flt() casts over
/// scalars and arrays, batched needles, regex sets, nested blocks over arrays, all()/of()), for one
/// rule and for two different rules evaluated one after the other.
fn c12_history(ctx: &mut Ctx) {
    let bodies = [
        "str(f): 443", "str(f): '44*'", "str(f): ['*43', 'x*']", "str(f): '?^44'", "str(f): 'i44*'",
        "int(f): 443", "flt(f): '>=443'", "f: ['*43', '44*', '*4*']", "all(f): ['4*', '*3']", "of(f, 2): ['4*', '*3', '?4+']",
        "f: '?^4.3$'", "f:\n      g: 443", "f:\n      str(g): '44*'", "str(f): ['?^44', '?3$']", "all(str(f)): ['4*', '*3']",
        "str(f): 443443", "str(f): '*3443'",
    ];
    let docs_txt = [
        "{f: [80, 443, 8080]}", "{f: 443}", "{f: [true, 443]}", "{f: 443443}", "{f: [1.5, 443]}", "{f: 44}", "{f: ['443']}",
        "{f: '443'}", "{f: {g: 443}}", "{f: [{g: 80}, {g: 443}, {g: 1}]}", "{f: true}", "{f: 4.43}", "{f: []}", "{g: 1}",
        "{f: [3, 443]}",
    ];
    let docs: Arc<Vec<Mapping>> = Arc::new(docs_txt.iter().map(|t| serde_yaml::from_str::<Mapping>(t).expect("doc")).collect());
    let nd = docs.len();
    let mut rules: Vec<(String, Arc<Rule>)> = vec![];
    for b in bodies.iter() {
        for cond in ["A", "not A"] {
            let text = format!("detection:\n  A:\n    {}\n  condition: {}\ntrue_positives: []\ntrue_negatives: []\n", b, cond);
            for mask in [0u64, 15] {
                if let Ok(r) = Rule::from_str(&text) {
                    let r = if mask == 0 { r } else { r.optimise(implside::opts(mask)) };
                    rules.push((format!("{} [mask {}]", text, mask), Arc::new(r)));
                }
            }
        }
    }
    let isolated = |rl: &Arc<Rule>, j: usize| -> Option<bool> {
        let rl = Arc::clone(rl);
        let ds = Arc::clone(&docs);
        std::thread::spawn(move || rl.matches(&ds[j])).join().ok()
    };
    let dummy = |what: &str| Exchange { line: format!("history {}", what), imp: String::new(), model: String::new(), agree: true, supported: false };
    let mut iso: Vec<Vec<Option<bool>>> = vec![];
    for (_, rl) in rules.iter() {
        iso.push((0..nd).map(|j| isolated(rl, j)).collect());
    }
    for (ri, (name, rl)) in rules.iter().enumerate() {
        ctx.nontrivial.insert(hash_str(name));
        // the rule that is evaluated first: the same rule, or the next one in the list
        for other in [ri, (ri + 4) % rules.len()] {
            let first_rule = Arc::clone(&rules[other].1);
            let mut bad: Option<String> = None;
            for a in 0..nd {
                let r1 = Arc::clone(&first_rule);
                let r2 = Arc::clone(rl);
                let ds = Arc::clone(&docs);
                let got = std::thread::spawn(move || {
                    let mut out = vec![false; ds.len()];
                    for b in 0..ds.len() {
                        // d_a through the first rule, then d_b through the rule under test
                        let _ = r1.matches(&ds[a]);
                        out[b] = r2.matches(&ds[b]);
                    }
                    out
                }).join();
                ctx.evaluations += nd;
                match got {
                    Ok(out) => {
                        for b in 0..nd {
                            if Some(out[b]) != iso[ri][b] && bad.is_none() {
                                bad = Some(format!("after {} (rule {}) the verdict on {} is {}, in isolation {:?}",
                                    docs_txt[a], if other == ri { "itself".to_string() } else { trunc(&rules[other].0, 80) }, docs_txt[b], out[b], iso[ri][b]));
                            }
                        }
                    }
                    Err(_) => { bad = Some(format!("matching panicked after {}", docs_txt[a])); }
                }
            }
            if let Some(msg) = bad {
                ctx.violation("oracle", &format!("a verdict depends on what was matched before on the same thread: {}", msg), &dummy(&ri.to_string()), name, true);
            }
        }
    }
}

// ------------------------------------------------------------------------------------ C14

/// Loading from text and loading from the YAML value of that text agree: hand-written text whose
/// plain scalars YAML resolves to booleans / null / numbers, in every position of the detection.
fn c14_text_vs_value(ctx: &mut Ctx) {
    let names = ["A", "true", "false", "null", "True", "NULL", "yes", "n0", "1", "1.5", "~", "0x10", "a.b", "-x"];
    let keys = ["f", "true", "null", "1", "int(n)", "not(s)", "all(f)"];
    let vals = ["bar", "true", "null", "1", "1.5", "~", "0x1F", "'01'", "\"q\"", "[a, true, 1]", "{k: true}", "!t x", "*x*", "i?Ab"];
    let m = budget(ctx, 600, 6000);
    for i in 0..m {
        let mut r = Rng::new(ctx.seed.wrapping_mul(733).wrapping_add(i as u64));
        let n1 = *r.pick(&names);
        let n2 = *r.pick(&names);
        let cond = match r.below(5) {
            0 => n1.to_string(),
            1 => format!("{} and {}", n1, n2),
            2 => format!("not {}", n1),
            3 => format!("all({})", n1),
            _ => format!("{} or not {}", n2, n1),
        };
        let mut text = String::from("detection:\n");
        let cond_first = r.chance(30);
        if cond_first {
            text.push_str(&format!("  condition: {}\n", cond));
        }
        // half of the cases keep the identifier bodies plain, so that the odd name / condition is the
        // only thing under test
        let plain = r.chance(50);
        let (k1, v1) = if plain { ("f", "bar") } else { (*r.pick(&keys), *r.pick(&vals)) };
        let (k2, v2) = if plain { ("g", "1") } else { (*r.pick(&keys), *r.pick(&vals)) };
        text.push_str(&format!("  {}:\n    {}: {}\n", n1, k1, v1));
        if n2 != n1 {
            text.push_str(&format!("  {}:\n    {}: {}\n", n2, k2, v2));
        }
        if !cond_first {
            text.push_str(&format!("  condition: {}\n", cond));
        }
        // anchors, aliases and merge keys: the text and its value must be read alike
        let merge = r.below(5);
        if merge == 0 {
            text.push_str("  base: &b\n    f: bar\n  M:\n    <<: *b\n    g: x\n");
        } else if merge == 1 {
            text.push_str("  base: &b\n    f: bar\n  M: *b\n");
        }
        if merge == 2 {
            text.push_str("true_positives:\n- &d {f: bar}\ntrue_negatives:\n- f: bar\n- <<: *d\n  g: 1\n- !t {f: true}\n");
        } else if merge == 3 {
            // example lists written as null / left empty / missing: text and value must be read alike
            let forms = ["true_positives: ~\n", "true_positives: null\n", "true_positives:\n", "true_positives: []\n", "", "true_positives: {}\n", "true_positives: x\n"];
            let tp = *r.pick(&forms);
            let tn = r.pick(&forms).replace("positives", "negatives");
            text.push_str(tp);
            text.push_str(&tn);
        } else {
            text.push_str("true_positives: []\ntrue_negatives:\n- f: bar\n- !t {f: true}\n");
        }
        c14_compare_text(ctx, &text, i);
    }
}

/// One rule text: `Rule::from_str(text)` and `Rule::from_value(serde_yaml::from_str(text))` must agree.
fn c14_compare_text(ctx: &mut Ctx, text: &str, i: usize) {
    let text = text.to_string();
    ctx.evaluations += 1;
    ctx.distinct.insert(hash_str(&text));
    let a = std::panic::catch_unwind(|| Rule::from_str(&text));
    let value: Yaml = match serde_yaml::from_str(&text) {
        Ok(v) => v,
        Err(_) => return,
    };
    let b = std::panic::catch_unwind(|| Rule::from_value(value.clone()));
    let dummy = Exchange { line: format!("text-vs-value {}", i), imp: String::new(), model: String::new(), agree: true, supported: false };
    let (a, b) = match (a, b) {
        (Ok(a), Ok(b)) => (a, b),
        _ => {
            ctx.violation("oracle", "loading panicked", &dummy, &text, true);
            return;
        }
    };
    match (&a, &b) {
        (Ok(x), Ok(y)) => {
            ctx.nontrivial.insert(hash_str(&text));
            let sa = format!("{} {}", crate::sx::expr_sx(&x.detection.expression), implside::ids_sx(&x.detection.identifiers));
            let sb = format!("{} {}", crate::sx::expr_sx(&y.detection.expression), implside::ids_sx(&y.detection.identifiers));
            if sa != sb {
                ctx.violation("oracle", &format!("from_str and from_value of the same text build different rules: {}", first_diff(&sa, &sb)), &dummy, &text, true);
            } else if x.true_positives != y.true_positives || x.true_negatives != y.true_negatives {
                ctx.violation("oracle", "from_str and from_value of the same text keep different example documents", &dummy, &text, true);
            } else if x.validate().is_ok() != y.validate().is_ok() {
                ctx.violation("oracle", "from_str and from_value of the same text disagree in validate()", &dummy, &text, true);
            }
        }
        (Err(_), Err(_)) => ctx.stat("text-vs-value-both-reject"),
        (Ok(_), Err(e)) => ctx.violation("oracle", &format!("the text loads with from_str but its YAML value does not load with from_value: {}", e), &dummy, &text, true),
        (Err(e), Ok(_)) => ctx.violation("oracle", &format!("the YAML value loads with from_value but the text does not load with from_str: {}", e), &dummy, &text, true),
    }
}

/// Hand-written layouts that `serde_yaml::to_string` never produces: block scalars (literal, folded,
/// with indentation indicators, holding tabs and trailing blanks), CRLF line ends, comments, flow
/// style, document markers, escapes in double-quoted scalars, a byte-order mark.
fn c14_layouts(ctx: &mut Ctx, known: &Known) {
    let head = ["", "---\n", "# a comment\n", "\u{feff}", "%YAML 1.2\n---\n"];
    let bodies = [
        "detection:\n  A:\n    cmd: |\n      begin\n      \trun\n  condition: A\ntrue_positives:\n- cmd: |\n    begin\n    \trun\ntrue_negatives: []\n",
        "detection:\n  A:\n    cmd: |-\n      begin\n      \t\tx\n      \t\n  condition: A\ntrue_positives: []\ntrue_negatives:\n- cmd: \"begin\\n  x\"\n",
        "detection:\n  A:\n    cmd: >\n      one\n      \ttwo\n\n      three\n  condition: A\ntrue_positives:\n- cmd: \"one\\n\\ttwo\\n\\nthree\\n\"\ntrue_negatives: []\n",
        "detection:\n  A:\n    cmd: |2\n        indented\n      \ttab\n  condition: A\ntrue_positives: []\ntrue_negatives: []\n",
        "detection:\n  A:\n    cmd: \"a\\tb\\u00e9\\x41\\\\\"\n  condition: A\ntrue_positives:\n- {cmd: \"a\\tbéA\\\\\"}\ntrue_negatives: []\n",
        "detection:\n  A:\n    cmd: 'x'   # trailing comment\n    \"k\\tq\": y\n  condition:   A   \ntrue_positives: []\ntrue_negatives: []\n",
        "detection: {A: {cmd: [a, 'b*', \"?c\"]}, condition: A}\ntrue_positives: [{cmd: a}]\ntrue_negatives: [{cmd: z}]\n",
        "detection:\n  A:\n    cmd:\n    - |\n      l1\n      \tl2\n    - plain\n  condition: A\ntrue_positives: []\ntrue_negatives: []\n",
        "detection:\n  A:\n    ? cmd\n    : x\n  condition: >-\n    A\n    or\n    A\ntrue_positives: []\ntrue_negatives: []\n",
        "detection:\n  A:\n    cmd: x\n  condition: |\n    A\ntrue_positives: []\ntrue_negatives: []\n",
        "detection:\n\tA:\n\t\tcmd: x\n\tcondition: A\ntrue_positives: []\ntrue_negatives: []\n",
        "detection:\n  A:\n    cmd: x\n  condition: A\n...\n",
        "detection:\n  A:\n    cmd: 'it''s'\n    say: \"a \\\"q\\\" b\"\n  condition: A\ntrue_positives:\n- cmd: it's\n  say: 'a \"q\" b'\ntrue_negatives: []\n",
    ];
    // top-level keys that are not strings, and explicit core tags (`!!str`, `!!int`, `!!bool`, `!!map`,
    // `!!seq`, `!!null`) at every level: read alike from the text and from its value
    let base = "detection:\n  A:\n    foo: bar\n  condition: A\ntrue_positives: []\ntrue_negatives: []\n";
    let mut i = 200000;
    for extra in ["1: x\n2: y\n", "1: x\n2024: y\n~: z\n", "2024: x\n~: y\n", "true: x\nfalse: y\n", "1: x\nother: y\n2: z\n", "2.5: x\n1: y\ntrue: z\n~: w\n", "~: x\n.inf: y\n-0: z\n",
        "1: x\n", "true: x\n", "~: x\n", "2.5: x\n", "other: x\n", "[a]: x\n", "{a: b}: x\n", "? [1, 2]\n: x\n", "!t k: x\n", "'1': x\n1: y\n", "null: ~\n", "optimised: true\n", "optimised: !!bool true\n", "optimised: 'true'\n", "optimised: yes\n", "optimised: 1\n", "optimised: ~\n", "optimised: !!str true\n", ".inf: x\n", "-0: x\n"] {
        i += 1;
        c14_compare_text(ctx, &format!("{}{}", base, extra), i);
        i += 1;
        c14_compare_text(ctx, &format!("{}{}", extra, base), i);
    }
    // keys that are no part of a rule today (descriptive metadata a rule file plausibly carries), with
    // values of every kind: whatever the loader makes of them, it makes the same of text and value
    for key in ["id", "title", "name", "description", "level", "author", "tags", "status", "date", "version", "references", "severity", "enabled", "uuid", "Detection", "Condition"] {
        for val in ["1001", "4624", "1.2", "true", "~", "[a, 1]", "{k: v}", "2024-01-01", "'text'", "0x1F", "!t x", "- a", ""] {
            i += 1;
            let entry = if val.starts_with('-') { format!("{}:\n{}\n", key, val) } else { format!("{}: {}\n", key, val) };
            c14_compare_text(ctx, &format!("{}{}", entry, base), i);
            if i % 3 == 0 {
                c14_compare_text(ctx, &format!("{}{}", base, entry), i + 50000);
            }
        }
    }
    for t in [
        "detection:\n  A:\n    foo: bar\n  condition: !!str A\ntrue_positives: []\ntrue_negatives: []\n",
        "detection:\n  A:\n    foo: !!str 5\n    g: !!int '5'\n    h: !!bool 'true'\n    k: !!float '1'\n  condition: A\ntrue_positives: []\ntrue_negatives: []\n",
        "detection: !!map\n  A: !!map\n    foo: !!seq [a, !!str 1]\n  condition: A\ntrue_positives: !!seq []\ntrue_negatives: !!null ~\n",
        "detection:\n  !!str A:\n    !!str foo: bar\n  !!str condition: A\ntrue_positives: []\ntrue_negatives: []\n",
        "detection:\n  A:\n    foo: !!null 'x'\n  condition: A\ntrue_positives: []\ntrue_negatives: []\n",
        "detection:\n  1:\n    foo: bar\n  condition: 1\ntrue_positives: []\ntrue_negatives: []\n",
        "detection:\n  A:\n    1: bar\n    true: x\n    ~: y\n  condition: A\ntrue_positives: [{1: bar, true: x}]\ntrue_negatives: [{~: y}]\n",
        "detection:\n  A:\n    foo: bar\n  condition: A\ntrue_positives: !!seq\n- !!map {foo: !!str bar}\ntrue_negatives: []\n",
    ] {
        i += 1;
        c14_compare_text(ctx, t, i);
    }
    // the recorded witnesses of KF-C14-tagged-quoted-flag: reported as such while they reproduce
    for f in known.for_prop("C14") {
        if f.family != "C14-tagged-quoted-flag" {
            continue;
        }
        for w in &f.witnesses {
            let text = format!("{}{}\n", base, w);
            ctx.evaluations += 1;
            let a = std::panic::catch_unwind(|| Rule::from_str(&text).is_ok());
            let b = std::panic::catch_unwind(|| serde_yaml::from_str::<Yaml>(&text).ok().map(|v| Rule::from_value(v).is_ok()));
            match (a, b) {
                (Ok(false), Ok(Some(true))) => { *ctx.known_hits.entry(f.id.clone()).or_insert(0) += 1; }
                (Ok(x), Ok(Some(y))) if x == y => {}
                other => {
                    let dummy = Exchange { line: format!("witness {}", w), imp: String::new(), model: String::new(), agree: true, supported: false };
                    ctx.violation("oracle", &format!("from_str / from_value on the recorded witness `{}` now give {:?}", w, other), &dummy, &text, true);
                }
            }
        }
    }
    let mut i = 100000;
    for h in head {
        for b in bodies {
            for crlf in [false, true] {
                let mut text = format!("{}{}", h, b);
                if crlf {
                    text = text.replace('\n', "\r\n");
                }
                i += 1;
                c14_compare_text(ctx, &text, i);
            }
        }
    }
}

/// The in-memory optimised rule against its serialised-and-reloaded copy. The copy is the
/// unoptimised tree, so the two differ exactly where optimisation changed a verdict (C01's recorded
/// findings): counted under KF-C14-optimised-verdict when the copy agrees with the plain rule,
/// a violation otherwise.
fn c14_optimised_vs_reloaded(ctx: &mut Ctx, known: &Known, name: &str, c: &CaseReq, from_corpus: bool, model_agrees: bool) {
    let rule = match Rule::from_value(implside::rule_value(c)) {
        Ok(r) => r,
        Err(_) => return,
    };
    let opt = rule.clone().optimise(implside::opts(15));
    let back = match serde_yaml::to_string(&opt).ok().and_then(|t| Rule::from_str(&t).ok()) {
        Some(b) => b,
        None => return,
    };
    for d in &c.docs {
        if let Some(m) = d.as_mapping() {
            let (o, b, p) = (opt.matches(m), back.matches(m), rule.matches(m));
            if o != b {
                // only a difference the faithful model reproduces (a recorded C01 shape) is known
                if b == p && model_agrees && known.has_family("C14", "C14-optimised-verdict") {
                    ctx.stat("known-optimised-verdict");
                    if from_corpus {
                        if let Some(f) = known.by_witness("C14", name) {
                            *ctx.known_hits.entry(f.id.clone()).or_insert(0) += 1;
                        }
                    } else {
                        *ctx.known_hits.entry("random:C14-optimised-verdict".into()).or_insert(0) += 1;
                    }
                } else {
                    let dummy = Exchange { line: format!("optimised-vs-reloaded {}", name), imp: String::new(), model: String::new(), agree: true, supported: false };
                    ctx.violation("oracle", &format!("optimised rule gives {}, its serialised-and-reloaded copy {}, the plain rule {} on {}", o, b, p, serde_yaml::to_string(d).unwrap_or_default().replace('\n', " ")), &dummy, &rule_yaml(c), true);
                }
                break;
            }
        }
    }
}

pub fn run_c14(ctx: &mut Ctx, _known: &Known) {
    let known = _known;
    crate::suites3::big_identifiers_twice(ctx, "C14");
    for (name, mut c) in corpus_cases() {
        c.masks = vec![0, 15];
        let (ex, _) = run_rule_case(ctx, &c, false);
        c14_optimised_vs_reloaded(ctx, known, &name, &c, true, ex.agree && ex.supported);
    }
    c14_text_vs_value(ctx);
    c14_layouts(ctx, _known);
    let n = budget(ctx, 1200, 30000);
    let tricky = ["*x", "?re", "'01'", "1", "true", "~", "0x1F", "1e3", "a\nb", "a\tb", " lead", "trail ", "- dash", "a: b", "#hash", "\"q\"", "'q'", "i*", "null", "NO", "0o7", "=1", ">=2.5", "{a}", "[a]", "a,b", "&x", "!t", "%p", "@a", "`b"];
    for i in 0..n {
        let mut r = Rng::new(ctx.seed.wrapping_mul(389).wrapping_add(i as u64));
        let mut c = gen_case(&mut r, vec![0, 15], 4);
        // quoting-sensitive strings as patterns
        if r.chance(60) {
            let s = *r.pick(&tricky);
            let v = if r.chance(50) { ys(s) } else { Yaml::Sequence(vec![ys(s), ys(*r.pick(&tricky))]) };
            c.det.push(("Q".into(), map1(*r.pick(&["a", "s", "str(n)"]), v)));
        }
        // literals and spellings in the condition that have more than one textual form
        let cond_specials = ["flt(a) < 0.000001", "flt(a) >= 10000000000000000.0", "flt(n) <= 0.00000000001", "flt(n) > 123456789012345678.0",
            "1.5 < flt(a)", "flt(a) == 0.1", "int(n) < 9223372036854775807", "int( n ) > 5", "string(a) == str(s)", "flt(n) >= 2.0", "flt(n) == 100000.0",
            "of(Q, 1)", "flt(a) < 0.00001", "flt(a) >= 1000000000000000.0"];
        if i < 4 * cond_specials.len() || r.chance(10) {
            let sp = cond_specials[i % cond_specials.len()];
            let has_q = c.det.iter().any(|(k, _)| k == "Q");
            if !(sp.contains('Q') && !has_q) {
                for (k, cv) in c.det.iter_mut() {
                    if k == "condition" {
                        if let Yaml::String(t) = cv {
                            *t = if i % 2 == 0 { format!("({}) or {}", t, sp) } else { format!("{} and ({})", sp, t) };
                        }
                    }
                }
            }
        }
        let (ex, parsed) = run_rule_case(ctx, &c, false);
        let p = match parsed {
            Some(p) if p.load == "ok" => p,
            _ => continue,
        };
        c14_optimised_vs_reloaded(ctx, _known, &format!("random:{}", i), &c, false, ex.agree && ex.supported);
        let ry = rule_yaml(&c);
        let value = implside::rule_value(&c);
        let rule = match Rule::from_value(value.clone()) {
            Ok(r) => r,
            Err(_) => continue,
        };
        for (label, rl) in [("plain", rule.clone()), ("optimised", rule.clone().optimise(implside::opts(15))), ("optimised without coalesce", rule.clone().optimise(implside::opts(14)))] {
            let text = match serde_yaml::to_string(&rl) {
                Ok(t) => t,
                Err(e) => {
                    ctx.violation("oracle", &format!("{} rule does not serialise: {}", label, e), &ex, &ry, true);
                    continue;
                }
            };
            let back = match Rule::from_str(&text) {
                Ok(b) => b,
                Err(e) => {
                    ctx.violation("oracle", &format!("{} rule: serialised text does not load again: {} -- text: {}", label, e, trunc(&text, 400)), &ex, &ry, true);
                    continue;
                }
            };
            // same condition and identifiers as the freshly loaded rule
            let a = format!("{} {}", crate::sx::expr_sx(&rule.detection.expression), implside::ids_sx(&rule.detection.identifiers));
            let b = format!("{} {}", crate::sx::expr_sx(&back.detection.expression), implside::ids_sx(&back.detection.identifiers));
            if a != b {
                ctx.violation("oracle", &format!("{} rule: reloaded rule differs: {}", label, first_diff(&a, &b)), &ex, &ry, true);
                continue;
            }
            if back.true_positives != rule.true_positives || back.true_negatives != rule.true_negatives {
                ctx.violation("oracle", &format!("{} rule: examples differ after the round trip", label), &ex, &ry, true);
            }
            // same verdicts as the serialised rule itself on every document
            for d in &c.docs {
                if let Some(m) = d.as_mapping() {
                    // an optimised rule serialises its flag, so the reloaded rule is the unoptimised
                    // tree marked optimised: its verdicts are those of the unoptimised rule
                    if back.matches(m) != rule.matches(m) {
                        ctx.violation("oracle", &format!("{} rule: verdict differs after the round trip", label), &ex, &ry, true);
                        break;
                    }
                }
            }
        }
        // from_str(text of the value) and from_value agree
        if let Ok(text) = serde_yaml::to_string(&value) {
            match Rule::from_str(&text) {
                Ok(rs) => {
                    let a = format!("{} {}", crate::sx::expr_sx(&rule.detection.expression), implside::ids_sx(&rule.detection.identifiers));
                    let b = format!("{} {}", crate::sx::expr_sx(&rs.detection.expression), implside::ids_sx(&rs.detection.identifiers));
                    if a != b {
                        ctx.violation("oracle", &format!("from_str and from_value disagree: {}", first_diff(&a, &b)), &ex, &ry, true);
                    }
                }
                Err(e) => ctx.violation("oracle", &format!("from_value loads but from_str of the same YAML does not: {}", e), &ex, &ry, true),
            }
        }
        let _ = p;
        ctx.nontrivial.insert(hash_str(&ex.line));
        if ctx.samples.len() < 6 {
            ctx.sample(json!({"rule": ry}));
        }
    }
}

// ------------------------------------------------------------------------------------ C15

fn ascii_rule_ok(c: &CaseReq) -> bool {
    let mut strs = vec![];
    for (_, v) in &c.det {
        gen::yaml_strings(v, &mut strs);
    }
    strs.iter().all(|s| s.is_ascii())
}

fn i_prefix(y: &Yaml) -> Yaml {
    match y {
        Yaml::String(s) => ys(&format!("i{}", s)),
        Yaml::Sequence(xs) => Yaml::Sequence(xs.iter().map(i_prefix).collect()),
        Yaml::Mapping(m) => {
            let mut out = Mapping::new();
            for (k, v) in m {
                out.insert(k.clone(), i_prefix(v));
            }
            Yaml::Mapping(out)
        }
        other => other.clone(),
    }
}

/// The document with its keys (all of them, or only the top-level ones) in upper case.
fn upper_keys(y: &Yaml, deep: bool) -> Yaml {
    match y {
        Yaml::Mapping(m) => {
            let mut out = Mapping::new();
            for (k, v) in m {
                let k2 = match k { Yaml::String(s) => ys(&s.to_ascii_uppercase()), other => other.clone() };
                out.insert(k2, if deep { upper_keys(v, deep) } else { v.clone() });
            }
            Yaml::Mapping(out)
        }
        Yaml::Sequence(xs) if deep => Yaml::Sequence(xs.iter().map(|x| upper_keys(x, deep)).collect()),
        other => other.clone(),
    }
}

pub fn run_c15(ctx: &mut Ctx, _known: &Known) {
    let ic_bin = std::env::var("TAU_IC_BIN").unwrap_or_else(|_| "/verif/harness/target_ic/release/tauh".to_string());
    let mut ic = match Driver::spawn_cmd(&ic_bin, &["serve"]) {
        Ok(d) => d,
        Err(e) => {
            let dummy = ctx.exchange("tok s:");
            ctx.violation("correspondence", &format!("cannot start the ignore_case build of the harness ({}): {}", ic_bin, e), &dummy, "", false);
            return;
        }
    };
    let n = budget(ctx, 1500, 30000);
    // patterns of every kind at and around the lengths where a limit or a buffer could sit
    // (measured with or without the `i` marker, which only one of the two builds writes)
    let mut extras: Vec<CaseReq> = vec![];
    {
        let lens: Vec<usize> = if ctx.tier == "thorough" { vec![31, 32, 33, 63, 64, 65, 127, 128, 129, 255, 256, 257, 511, 512, 513, 1023, 1024, 1025, 2047, 2048, 2049, 4095, 4096, 4097] } else { vec![63, 64, 65, 127, 128, 129, 255, 256, 257, 1023, 1024, 1025, 4095, 4096, 4097] };
        for l in lens {
            for shape in 0..6usize {
                let deco = [0usize, 1, 1, 2, 1, 2][shape];
                let body: String = (0..l - deco).map(|k| if k % 2 == 0 { 'A' } else { 'b' }).collect();
                let pat = match shape { 0 => body.clone(), 1 => format!("{}*", body), 2 => format!("*{}", body), 3 => format!("*{}*", body), 4 => format!("?{}", body), _ => format!("'{}'", body) };
                let hit = body.to_ascii_lowercase();
                let docs = vec![map1("s", ys(&hit)), map1("s", ys(&body)), map1("s", ys(&format!("x{}x", hit))), map1("s", ys("other"))];
                extras.push(CaseReq { optimised: false, det: vec![("A".into(), map1("s", ys(&pat))), ("condition".into(), ys("A"))], tps: vec![], tns: vec![], docs: docs.clone(), masks: vec![0, 15] });
                if shape % 2 == 1 {
                    extras.push(CaseReq { optimised: false, det: vec![("A".into(), map1("s", Yaml::Sequence(vec![ys("zq*"), ys(&pat)]))), ("condition".into(), ys("A"))], tps: vec![], tns: vec![], docs, masks: vec![0, 15] });
                }
            }
        }
    }
    for i in 0..n + extras.len() {
        let mut r = Rng::new(ctx.seed.wrapping_mul(743).wrapping_add(i as u64));
        let mut c: CaseReq = if i >= n { let e = &extras[i - n]; CaseReq { optimised: e.optimised, det: e.det.clone(), tps: e.tps.clone(), tns: e.tns.clone(), docs: e.docs.clone(), masks: e.masks.clone() } } else { gen_case(&mut r, vec![0, 15], 4) };
        if i < n && r.chance(25) {
            // text that starts or ends with white space, or with the letter i itself
            let ws = [" a*", " a", "\ta", "a ", " *", " -enc*", "  ab", "*b ", "iis", "i*", "ii", " i", "i a", "\\inetpub\\*", "\\ipc$", "*\\intel\\*", "\\i", "\\I*"];
            let v = if r.chance(60) { ys(*r.pick(&ws)) } else { Yaml::Sequence(vec![ys(*r.pick(&ws)), ys(*r.pick(&ws))]) };
            c.det.push(("W".into(), map1("s", v)));
            for (k, cv) in c.det.iter_mut() {
                if k == "condition" {
                    if let Yaml::String(t) = cv {
                        *t = format!("({}) or W", t);
                    }
                }
            }
            for t in [" a", "a", " -enc x", "  AB", "xb ", "IIS", " I", "i A", "\tA", "\\inetpub\\wwwroot", "inetpub\\wwwroot", "\\IPC$", "ipc$", "c:\\intel\\x", "\\i", "i"] {
                c.docs.push(map1("s", ys(t)));
            }
        }
        if !ascii_rule_ok(&c) {
            continue;
        }
        // regex classes and boundaries are Unicode-aware in both builds
        if i < n && i % 7 == 0 {
            let rx = ["?^\\w+\\.exe$", "?^\\d+$", "?^net\\s+user", "?\\bcmd\\b", "?^(kiosk|system)$", "?^\\w+$", "?\\W", "?^[[:alpha:]]+$", "?\\s$"];
            let v = if i % 14 == 0 { ys(rx[(i / 7) % rx.len()]) } else { Yaml::Sequence(vec![ys(rx[(i / 7) % rx.len()]), ys("zq*")]) };
            c.det.push(("U".into(), map1("s", v)));
            for (k, cv) in c.det.iter_mut() {
                if k == "condition" {
                    if let Yaml::String(t) = cv {
                        *t = format!("({}) or U", t);
                    }
                }
            }
            for t in ["café.exe", "٣٣", "net\u{a0}user", "écmd", "cmd", "éé", "é", "Ж", "a ", "a\u{a0}", "cafe.exe", "12"] {
                c.docs.push(map1("s", ys(t)));
            }
        }
        // inline flag groups of a regex belong to the pattern: `(?-i)` keeps its part case-sensitive
        // in both builds
        if i < n && i % 11 == 3 {
            let rx = ["?^(?-i)PsExec", "?(?-i:Ps)exec", "?^(?-i:net)\\s+USER", "?a(?s-i)B.c", "?(?i)abc(?-i)DEF", "?^((?-i)x|y)z$", "?(?-i)", "?\\(?-i\\)q"];
            let pick = rx[(i / 11) % rx.len()];
            let v = if i % 2 == 0 { ys(pick) } else { Yaml::Sequence(vec![ys(pick), ys(rx[(i / 11 + 3) % rx.len()]), ys("zq*")]) };
            c.det.push(("R".into(), map1("s", v)));
            for (k, cv) in c.det.iter_mut() {
                if k == "condition" {
                    if let Yaml::String(t) = cv {
                        *t = if i % 3 == 0 { format!("({}) or R", t) } else { "R".to_string() };
                    }
                }
            }
            for t in ["psexec64.exe", "PsExec64.exe", "PSEXEC", "net user", "NET USER", "net  USER", "aB\nc", "ab\nc", "ABCDEF", "abcDEF", "abcdef", "xz", "Xz", "YZ", "(?-i)q", "q"] {
                c.docs.push(map1("s", ys(t)));
            }
        }
        // a comparison of two fields' texts holds no pattern: it is case-SENSITIVE in both builds
        if i < n && i % 5 == 0 {
            for (k, cv) in c.det.iter_mut() {
                if k == "condition" {
                    if let Yaml::String(t) = cv {
                        *t = match (i / 5) % 3 { 0 => format!("({}) or str(s) == str(a)", t), 1 => format!("({}) and not (str(s) == str(a))", t), _ => "str(s) == str(a)".to_string() };
                    }
                }
            }
            for (x, y) in [("HOST-1", "host-1"), ("alice", "Alice"), ("same", "same"), ("True", "true")] {
                c.docs.push(Yaml::Mapping([(ys("s"), ys(x)), (ys("a"), ys(y))].into_iter().collect()));
            }
            c.docs.push(Yaml::Mapping([(ys("s"), Yaml::Bool(true)), (ys("a"), ys("True"))].into_iter().collect()));
        }
        // only PATTERNS are case-insensitive, field names are not: documents whose keys differ from
        // the rule's fields in case only
        if i < n && i % 3 == 0 {
            let extra: Vec<Yaml> = c.docs.iter().take(2).map(|d| upper_keys(d, i % 2 == 0)).collect();
            c.docs.extend(extra);
        }
        // the ignore_case build on R (model with icFeature = true as well)
        let line_ic = case::case_line(true, &c);
        ctx.evaluations += 1;
        ctx.distinct.insert(hash_str(&line_ic));
        let imp_ic = ic.ask(&line_ic);
        let model_ic = ctx.drv.ask(&line_ic);
        let ry = rule_yaml(&c);
        if !model_ic.starts_with("unsupported") && imp_ic != model_ic {
            let ex = Exchange { line: line_ic.clone(), imp: imp_ic.clone(), model: model_ic.clone(), agree: false, supported: true };
            ctx.stat("disagreement");
            ctx.violation("correspondence", &format!("ignore_case build vs model(icFeature): {}", first_diff(&imp_ic, &model_ic)), &ex, &ry, false);
        }
        // the default build on R itself first (every other case): what it means there is C07's
        // business, but whatever the process keeps from it must not leak into the next load
        if i % 2 == 0 {
            let (ex0, _) = run_rule_case(ctx, &c, false);
            ctx.check_agree(&ex0, &ry);
        }
        // the default build on i·R
        let mut c2 = CaseReq { optimised: c.optimised, det: vec![], tps: c.tps.clone(), tns: c.tns.clone(), docs: c.docs.clone(), masks: c.masks.clone() };
        for (k, v) in &c.det {
            if k == "condition" {
                c2.det.push((k.clone(), v.clone()));
            } else {
                c2.det.push((k.clone(), i_prefix(v)));
            }
        }
        let (ex2, p2) = run_rule_case(ctx, &c2, false);
        let p_ic = parse_reply(&imp_ic);
        match (p_ic, p2) {
            (Some(a), Some(b)) => {
                if (a.load == "ok") != (b.load == "ok") {
                    ctx.violation("oracle", &format!("ignore_case build: load = {}, default build on the i-prefixed rule: load = {}", a.load, b.load), &ex2, &ry, true);
                    continue;
                }
                if a.load != "ok" {
                    continue;
                }
                ctx.nontrivial.insert(hash_str(&line_ic));
                for (ma, mb) in a.masks.iter().zip(b.masks.iter()) {
                    let va: Vec<&String> = ma.res.iter().map(|(t, _)| t).collect();
                    let vb: Vec<&String> = mb.res.iter().map(|(t, _)| t).collect();
                    if va != vb || a.expr != b.expr || a.ids != b.ids {
                        ctx.violation("oracle", &format!("mask {}: ignore_case build gives {:?}, default build on the i-prefixed rule gives {:?}", ma.mask, va, vb), &ex2, &ry, true);
                        break;
                    }
                }
                if ctx.samples.len() < 6 {
                    ctx.sample(json!({"rule": ry, "ignore_case_build": a.masks[0].res.iter().map(|(t, _)| t.clone()).collect::<Vec<_>>().join("")}));
                }
            }
            _ => {
                if imp_ic.contains("PANIC") {
                    ctx.violation("oracle", &format!("ignore_case build panicked: {}", trunc(&imp_ic, 200)), &ex2, &ry, true);
                }
            }
        }
    }
}
