//! Building protocol lines (requests) from structured cases, incl. the regex oracle table.

use regex::RegexBuilder;
use serde_yaml::Value as Yaml;

use crate::gen;
use crate::implside::CaseReq;
use crate::sx;

fn strip_dot_star(p: &str) -> String {
    let mut s = p.to_string();
    if let Some(t) = s.strip_prefix(".*") {
        s = t.to_string();
    }
    if let Some(h) = s.strip_suffix(".*") {
        s = h.to_string();
    }
    s
}

/// Every regex the rule can mention (both flag values, original and stripped text), evaluated by
/// the `regex` crate on every string the documents expose.
pub fn oracle_sx(rule_strings: &[String], hays: &[String]) -> String {
    let mut pats: Vec<String> = vec![];
    for s in rule_strings {
        for cand in [s.strip_prefix("i?"), s.strip_prefix('?')].into_iter().flatten() {
            let c = cand.to_string();
            let st = strip_dot_star(&c);
            for p in [c, st] {
                if !pats.contains(&p) {
                    pats.push(p);
                }
            }
        }
    }
    let mut uniq: Vec<&String> = vec![];
    for h in hays {
        if !uniq.contains(&h) {
            uniq.push(h);
        }
    }
    let mut out = String::from("(regex");
    for p in &pats {
        for ci in [false, true] {
            match RegexBuilder::new(p).case_insensitive(ci).build() {
                Ok(re) => {
                    out.push_str(&format!(" (re {} {} true", sx::enc(p), ci));
                    for h in &uniq {
                        out.push_str(&format!(" (h {} {})", sx::enc(h), re.is_match(h)));
                    }
                    out.push(')');
                }
                Err(_) => out.push_str(&format!(" (re {} {} false)", sx::enc(p), ci)),
            }
        }
    }
    out.push(')');
    out
}

pub fn case_line(ic: bool, c: &CaseReq) -> String {
    let mut rule_strings = vec![];
    for (_, v) in &c.det {
        gen::yaml_strings(v, &mut rule_strings);
    }
    let mut hays = vec![];
    for d in c.docs.iter().chain(c.tps.iter()).chain(c.tns.iter()) {
        gen::doc_strings(d, &mut hays);
    }
    let det: Vec<String> = c
        .det
        .iter()
        .map(|(k, v)| format!("(kv {} {})", sx::enc(k), sx::yaml_sx(v)))
        .collect();
    let tps: Vec<String> = c.tps.iter().map(sx::yaml_sx).collect();
    let tns: Vec<String> = c.tns.iter().map(sx::yaml_sx).collect();
    let docs: Vec<String> = c.docs.iter().map(sx::doc_sx).collect();
    let masks: Vec<String> = c.masks.iter().map(|m| m.to_string()).collect();
    format!(
        "case {} (rule {} (det {}) (tp {}) (tn {})) (docs {}) (masks {}) {}",
        ic,
        c.optimised,
        det.join(" "),
        tps.join(" "),
        tns.join(" "),
        docs.join(" "),
        masks.join(" "),
        oracle_sx(&rule_strings, &hays)
    )
}

pub fn pat_line(ic: bool, s: &str) -> String {
    format!("pat {} {} {}", ic, sx::enc(s), oracle_sx(&[s.to_string()], &[]))
}

pub fn ident_line(ic: bool, y: &Yaml) -> String {
    let mut rule_strings = vec![];
    gen::yaml_strings(y, &mut rule_strings);
    format!("ident {} {} {}", ic, sx::yaml_sx(y), oracle_sx(&rule_strings, &[]))
}
