use tau_engine::Rule;
fn main() {
    let args: Vec<String> = std::env::args().collect();
    let rule = std::fs::read_to_string(&args[1]).unwrap();
    let r = match Rule::from_str(&rule) { Ok(r) => r, Err(e) => { println!("load err {:?}", e); return; } };
    println!("expr: {}", r.detection.expression);
    for (k, v) in &r.detection.identifiers { println!("  {}: {}", k, v); }
    for d in &args[2..] {
        let doc: serde_yaml::Value = serde_yaml::from_str(d).unwrap();
        let m = doc.as_mapping().unwrap();
        let o = r.clone().optimise(Default::default());
        println!("{} -> {} (opt {}: {})", d, r.matches(m), o.matches(m), o.detection.expression);
    }
}
