//! Generators: structured, mostly-valid rules built from the rule language's own shapes, documents
//! built from the rule's own fields, plus a malformed stream. Every choice derives from one
//! SplitMix64 state so a case replays from (seed, index).

use serde_yaml::{Mapping, Value as Yaml};

#[derive(Clone)]
pub struct Rng(pub u64);

impl Rng {
    pub fn new(seed: u64) -> Self {
        Rng(seed.wrapping_mul(0x9E3779B97F4A7C15) ^ 0xD1B54A32D192ED03)
    }
    pub fn next(&mut self) -> u64 {
        self.0 = self.0.wrapping_add(0x9E3779B97F4A7C15);
        let mut z = self.0;
        z = (z ^ (z >> 30)).wrapping_mul(0xBF58476D1CE4E5B9);
        z = (z ^ (z >> 27)).wrapping_mul(0x94D049BB133111EB);
        z ^ (z >> 31)
    }
    pub fn below(&mut self, n: usize) -> usize {
        (self.next() % (n as u64)) as usize
    }
    pub fn chance(&mut self, pct: u32) -> bool {
        (self.next() % 100) < pct as u64
    }
    pub fn pick<'a, T>(&mut self, xs: &'a [T]) -> &'a T {
        &xs[self.below(xs.len())]
    }
}

pub fn ys(s: &str) -> Yaml {
    Yaml::String(s.to_string())
}

pub const FIELDS: &[&str] = &["a", "b", "c", "n", "s", "arr", "o", "o.k", "o.p.q", "arr[0]", "arr[1]", "oa", "oa[0].k"];
pub const SIMPLE_FIELDS: &[&str] = &["a", "b", "c", "n", "s", "arr", "o", "oa"];
pub const WORDS: &[&str] = &["a", "b", "ab", "ba", "A", "aB", "abc", "x", "1", "3", "true", "", "a b", "bab"];
pub const REGEXES: &[&str] = &[
    "a", "^a", "b$", "a.*b", ".*a", "a.*", ".*ab.*", "[ab]+", "a|b", "(?i)a", "\\d+", "^$", "a\\.*", ".*?b",
    "(", "a{2}", ".*", "^ab$", "B", "^.*a", "b.*$", "^.*ab.*$", ".*a$", "^a.*",
];
pub const ODD_PATTERNS: &[&str] = &[
    "", "*", "**", "i", "?", "'", "\"", "i*", "i?", "''", "'a'", "\"a*\"", "i'A'", "***", "*a*b*", "=", ">", "=1", ">=3",
    "<2.5", "=1.0", ">x", "<=1e3", "=.5", "=+3", "=-1", ">9223372036854775807", ">9223372036854775808", "i=1", "1", "1.5",
    "true", "null", "~", "iÄ", "Ä*", "*é", "日", "i日*", "a\nb",
];

pub fn gen_pattern(r: &mut Rng) -> String {
    let k = r.below(100);
    if k < 8 {
        return r.pick(ODD_PATTERNS).to_string();
    }
    let w = r.pick(WORDS).to_string();
    let base = if k < 30 {
        w
    } else if k < 42 {
        format!("{}*", w)
    } else if k < 54 {
        format!("*{}", w)
    } else if k < 66 {
        format!("*{}*", w)
    } else if k < 70 {
        "*".to_string()
    } else if k < 84 {
        format!("?{}", r.pick(REGEXES))
    } else if k < 88 {
        format!("'{}'", w)
    } else if k < 92 {
        let ops = ["=", ">", ">=", "<", "<="];
        let nums = ["0", "1", "3", "-1", "2.5", "1.0", "10", "9223372036854775807"];
        return format!("{}{}", r.pick(&ops), r.pick(&nums));
    } else {
        format!("\"{}\"", w)
    };
    if r.chance(25) {
        format!("i{}", base)
    } else {
        base
    }
}

pub fn gen_scalar_value(r: &mut Rng) -> Yaml {
    match r.below(10) {
        0..=4 => ys(&gen_pattern(r)),
        5 => Yaml::Number((*r.pick(&[0i64, 1, 3, -1, 10, i64::MAX, i64::MIN])).into()),
        6 => Yaml::Number((*r.pick(&[0.0f64, 1.0, 2.5, -1.5, 1e300, 3.0])).into()),
        7 => Yaml::Bool(r.chance(50)),
        8 => Yaml::Null,
        _ => Yaml::Number((*r.pick(&[u64::MAX, 9223372036854775808u64, 5])).into()),
    }
}

/// A list of members; `kind` 0 strings, 1 numbers, 2 bools, 3 mappings, 4 mixed.
pub fn gen_list(r: &mut Rng, depth: usize, kind: usize, len: usize) -> Yaml {
    let mut xs = vec![];
    for _ in 0..len {
        let k = if kind == 4 { r.below(4) } else { kind };
        xs.push(match k {
            0 => ys(&gen_pattern(r)),
            1 => match r.below(3) {
                0 => Yaml::Number((*r.pick(&[0i64, 1, 3, -1])).into()),
                1 => Yaml::Number((*r.pick(&[1.0f64, 2.5])).into()),
                _ => ys(&format!("{}{}", r.pick(&["=", ">", "<=", "<"]), r.pick(&["1", "3", "2.5"]))),
            },
            2 => Yaml::Bool(r.chance(50)),
            _ => {
                if depth < 2 {
                    { let n = 1 + r.below(2); Yaml::Mapping(gen_mapping(r, depth + 1, n)) }
                } else {
                    ys(&gen_pattern(r))
                }
            }
        });
    }
    if r.chance(3) {
        xs.push(Yaml::Null);
    }
    Yaml::Sequence(xs)
}

pub fn gen_entry(r: &mut Rng, depth: usize) -> (Yaml, Yaml) {
    let field = if depth == 0 { *r.pick(FIELDS) } else { *r.pick(&["k", "p", "q", "a", "p.q", "k[0]"]) };
    let m = r.below(100);
    if m < 50 {
        // plain key
        let v = match r.below(10) {
            0..=4 => gen_scalar_value(r),
            5..=6 => {
                let kind = *r.pick(&[0usize, 0, 0, 1, 2, 3, 4]);
                let len = 1 + r.below(4);
                gen_list(r, depth, kind, len)
            }
            7..=8 => {
                if depth < 2 {
                    { let n = 1 + r.below(2); Yaml::Mapping(gen_mapping(r, depth + 1, n)) }
                } else {
                    gen_scalar_value(r)
                }
            }
            _ => ys(&gen_pattern(r)),
        };
        (ys(field), v)
    } else if m < 62 {
        let kind = *r.pick(&[0usize, 0, 0, 1, 2, 3, 4]);
        let len = 1 + r.below(4);
        (ys(&format!("all({})", field)), gen_list(r, depth, kind, len))
    } else if m < 74 {
        let kind = *r.pick(&[0usize, 0, 0, 1, 2, 3, 4]);
        let len = 1 + r.below(4);
        let n = r.below(len + 2);
        let sp = if r.chance(50) { " " } else { "" };
        (ys(&format!("of({},{}{})", field, sp, n)), gen_list(r, depth, kind, len))
    } else if m < 82 {
        let v = if r.chance(70) { gen_scalar_value(r) } else { { let n = 1 + r.below(3); gen_list(r, depth, 0, n) } };
        (ys(&format!("not({})", field)), v)
    } else if m < 89 {
        let v = match r.below(5) {
            0 => Yaml::Number((*r.pick(&[0i64, 1, 3, -1])).into()),
            1 => Yaml::Bool(r.chance(50)),
            2 => ys(&format!("{}{}", r.pick(&["=", ">", ">=", "<", "<="]), r.pick(&["0", "1", "3", "-1"]))),
            3 => { let n = 1 + r.below(3); gen_list(r, depth, 1, n) },
            _ => gen_scalar_value(r),
        };
        (ys(&format!("int({})", field)), v)
    } else if m < 92 {
        let v = match r.below(3) {
            0 => Yaml::Number((*r.pick(&[1.0f64, 2.5, 0.0])).into()),
            1 => ys(&format!("{}{}", r.pick(&["=", ">", "<="]), r.pick(&["1.0", "2.5", "0.5"]))),
            _ => gen_scalar_value(r),
        };
        (ys(&format!("flt({})", field)), v)
    } else if m < 99 {
        let v = match r.below(5) {
            0 => Yaml::Number((*r.pick(&[1i64, 3])).into()),
            1 => Yaml::Bool(r.chance(50)),
            2 => { let k = *r.pick(&[0usize, 0, 1, 2, 4]); let n = 1 + r.below(3); gen_list(r, depth, k, n) },
            3 => Yaml::Number((2.5f64).into()),
            _ => ys(&gen_pattern(r)),
        };
        let kw = if r.chance(85) { "str" } else { "string" };
        (ys(&format!("{}({})", kw, field)), v)
    } else {
        // odd keys
        let k = *r.pick(&["a b", "a  b", "", "1", "a and b", "all(a", "of(a)", "of(a,-1)", "a,b", "(a)", "not a", "é", "a#b", "#", "a]"]);
        (ys(k), gen_scalar_value(r))
    }
}

pub fn gen_mapping(r: &mut Rng, depth: usize, n: usize) -> Mapping {
    let mut m = Mapping::new();
    for _ in 0..n {
        let (k, v) = gen_entry(r, depth);
        m.insert(k, v);
    }
    m
}

pub fn gen_identifier(r: &mut Rng) -> Yaml {
    let k = r.below(100);
    if k < 65 {
        { let n = 1 + r.below(3); Yaml::Mapping(gen_mapping(r, 0, n)) }
    } else if k < 97 {
        let n = 1 + r.below(3);
        Yaml::Sequence((0..n).map(|_| { let n = 1 + r.below(3); Yaml::Mapping(gen_mapping(r, 0, n)) }).collect())
    } else {
        // invalid shapes
        match r.below(4) {
            0 => Yaml::Sequence(vec![]),
            1 => ys("x"),
            2 => Yaml::Sequence(vec![Yaml::Mapping(gen_mapping(r, 0, 1)), ys("x")]),
            _ => Yaml::Mapping(Mapping::new()),
        }
    }
}

/// Condition AST used by the generator and by the C05 oracle.
#[derive(Clone, Debug)]
pub enum Cond {
    Id(String),
    Not(Box<Cond>),
    And(Box<Cond>, Box<Cond>),
    Or(Box<Cond>, Box<Cond>),
    All(String),
    Of(String, u64),
    Cmp(String, &'static str, &'static str, String), // cast kind, field, op, literal
    CmpRev(String, &'static str, &'static str, String),
    StrEq(String, String),
    CmpFF(String, &'static str, &'static str, String), // kind(f) op kind(g)
}

pub fn gen_cond(r: &mut Rng, ids: &[String], depth: usize) -> Cond {
    let k = r.below(100);
    if depth >= 3 || k < 35 {
        let id = r.pick(ids).clone();
        return match r.below(10) {
            0 => Cond::All(id),
            1 => Cond::Of(id, r.below(4) as u64),
            _ => Cond::Id(id),
        };
    }
    if k < 50 {
        Cond::Not(Box::new(gen_cond(r, ids, depth + 1)))
    } else if k < 70 {
        Cond::And(Box::new(gen_cond(r, ids, depth + 1)), Box::new(gen_cond(r, ids, depth + 1)))
    } else if k < 90 {
        Cond::Or(Box::new(gen_cond(r, ids, depth + 1)), Box::new(gen_cond(r, ids, depth + 1)))
    } else if k < 97 {
        let f = r.pick(SIMPLE_FIELDS).to_string();
        let op = *r.pick(&["==", ">", ">=", "<", "<="]);
        if r.chance(70) {
            let lit = r.pick(&["0", "1", "3", "10"]).to_string();
            if r.chance(80) {
                Cond::Cmp(f, "int", op, lit)
            } else {
                Cond::CmpRev(f, "int", op, lit)
            }
        } else {
            let lit = r.pick(&["0.5", "1.0", "2.5"]).to_string();
            Cond::Cmp(f, "flt", op, lit)
        }
    } else if r.chance(50) {
        Cond::StrEq(r.pick(SIMPLE_FIELDS).to_string(), r.pick(SIMPLE_FIELDS).to_string())
    } else {
        let kind = if r.chance(70) { "int" } else { "flt" };
        Cond::CmpFF(r.pick(SIMPLE_FIELDS).to_string(), kind, *r.pick(&["==", ">", "<="]), r.pick(SIMPLE_FIELDS).to_string())
    }
}

fn prec(c: &Cond) -> u8 {
    match c {
        Cond::And(_, _) => 70,
        Cond::Or(_, _) => 80,
        Cond::Cmp(..) | Cond::CmpRev(..) | Cond::StrEq(..) | Cond::CmpFF(..) => 90,
        Cond::Not(_) => 95,
        _ => 100,
    }
}

/// Print with exactly the parentheses the grammar requires, plus optional redundant ones.
pub fn print_cond(c: &Cond, r: &mut Rng, extra_pct: u32) -> String {
    fn sp(r: &mut Rng) -> String {
        match r.below(6) {
            0 => "  ".into(),
            1 => " \t".into(),
            _ => " ".into(),
        }
    }
    fn isp(r: &mut Rng, extra_pct: u32) -> String {
        if extra_pct == 0 { return String::new(); }
        match r.below(4) {
            0 => " ".into(),
            1 => "\t ".into(),
            _ => String::new(),
        }
    }
    // a comparison operator needs no blanks around it
    fn osp(r: &mut Rng, extra_pct: u32) -> String {
        if extra_pct > 0 && r.chance(40) { String::new() } else { " ".into() }
    }
    fn opar(s: String, r: &mut Rng, extra_pct: u32) -> String {
        if extra_pct > 0 && r.chance(extra_pct / 2) { format!("({})", s) } else { s }
    }
    let wrap = |s: String, r: &mut Rng| -> String {
        if r.chance(extra_pct) {
            format!("({})", s)
        } else {
            s
        }
    };
    let s = match c {
        Cond::Id(i) => i.clone(),
        // blanks inside the parentheses of all()/of()/casts are insignificant too
        Cond::All(i) => { let (a, b) = (isp(r, extra_pct), isp(r, extra_pct)); format!("all({}{}{})", a, i, b) }
        Cond::Of(i, n) => { let (a, b, c2) = (isp(r, extra_pct), isp(r, extra_pct), isp(r, extra_pct)); format!("of({}{}{},{}{}{})", a, i, b, if r.chance(50) { " " } else { "" }, n, c2) }
        // an operand of a comparison may carry its own redundant parentheses
        Cond::Cmp(f, k, op, lit) => { let (a, b) = (isp(r, extra_pct), isp(r, extra_pct)); let l = opar(format!("{}({}{}{})", k, a, f, b), r, extra_pct); let rr = opar(lit.clone(), r, extra_pct); let (s1, s2) = (osp(r, extra_pct), osp(r, extra_pct)); format!("{}{}{}{}{}", l, s1, op, s2, rr) }
        Cond::CmpRev(f, k, op, lit) => { let (a, b) = (isp(r, extra_pct), isp(r, extra_pct)); let l = opar(lit.clone(), r, extra_pct); let rr = opar(format!("{}({}{}{})", k, a, f, b), r, extra_pct); let (s1, s2) = (osp(r, extra_pct), osp(r, extra_pct)); format!("{}{}{}{}{}", l, s1, op, s2, rr) }
        Cond::StrEq(a, b) => { let (x, y) = (isp(r, extra_pct), isp(r, extra_pct)); format!("str({}{}{}){}=={}str({}{}{})", x, a, y, sp(r), sp(r), y, b, x) }
        Cond::CmpFF(a, k, op, b) => { let (x, y) = (isp(r, extra_pct), isp(r, extra_pct)); format!("{}({}{}{}){}{}{}{}({}{}{})", k, x, a, y, sp(r), op, sp(r), k, y, b, x) }
        Cond::Not(x) => {
            let inner = print_cond(x, r, extra_pct);
            // `not` binds at 95: its operand must be an atom, a not, or parenthesised
            if prec(x) >= 95 {
                format!("not{}{}", sp(r), inner)
            } else {
                format!("not{}({})", sp(r), inner)
            }
        }
        Cond::And(a, b) | Cond::Or(a, b) => {
            let (p, kw) = if let Cond::And(_, _) = c { (70, "and") } else { (80, "or") };
            let l = print_cond(a, r, extra_pct);
            let rr = print_cond(b, r, extra_pct);
            // left operand may stay bare if it binds at least as tight (left associativity),
            // the right operand only if it binds strictly tighter
            let l = if prec(a) >= p { l } else { format!("({})", l) };
            let rr = if prec(b) > p { rr } else { format!("({})", rr) };
            format!("{}{}{}{}{}", l, sp(r), kw, sp(r), rr)
        }
    };
    wrap(s, r)
}

pub const DOC_STRINGS: &[&str] = &["x\na", "ab\nx", "b\na b", "a", "b", "ab", "ba", "A", "aB", "abc", "x", "", "1", "3", "true", "bab", "xaby", "AB", "a b", "Ä", "ä", "日a", "2.5", "1.0", " 1", "1e3", "nan", "inf", "-1", "+3", "9223372036854775808"];

pub fn gen_doc_scalar(r: &mut Rng) -> Yaml {
    match r.below(16) {
        0..=7 => ys(*r.pick(DOC_STRINGS)),
        8 => Yaml::Number((*r.pick(&[0i64, 1, 3, -1, 10, i64::MIN, 2])).into()),
        9 => Yaml::Number((*r.pick(&[1u64, 3, u64::MAX, 9223372036854775808, 9223372036854775807])).into()),
        10 => Yaml::Number((*r.pick(&[0.0f64, -0.0, 1.0, 2.5, 0.5, -1.5, 1e300, f64::NAN, f64::INFINITY, f64::NEG_INFINITY, 3.0, 2.4999, 9.3e18])).into()),
        11 => Yaml::Bool(r.chance(50)),
        12 => Yaml::Null,
        _ => ys(*r.pick(DOC_STRINGS)),
    }
}

pub fn gen_doc_value(r: &mut Rng, depth: usize) -> Yaml {
    let k = r.below(100);
    if depth >= 2 || k < 62 {
        gen_doc_scalar(r)
    } else if k < 78 {
        let n = r.below(4);
        Yaml::Sequence((0..n).map(|_| if r.chance(75) { gen_doc_scalar(r) } else { gen_doc_value(r, depth + 1) }).collect())
    } else if k < 90 {
        let mut m = Mapping::new();
        for f in ["k", "p", "q", "a"] {
            if r.chance(55) {
                m.insert(ys(f), gen_doc_value(r, depth + 1));
            }
        }
        Yaml::Mapping(m)
    } else {
        // array of objects
        let n = r.below(4);
        Yaml::Sequence(
            (0..n)
                .map(|_| {
                    if r.chance(85) {
                        let mut m = Mapping::new();
                        for f in ["k", "p", "q", "a"] {
                            if r.chance(60) {
                                m.insert(ys(f), gen_doc_value(r, depth + 1));
                            }
                        }
                        Yaml::Mapping(m)
                    } else {
                        gen_doc_scalar(r)
                    }
                })
                .collect(),
        )
    }
}

pub fn gen_doc(r: &mut Rng) -> Yaml {
    let mut m = Mapping::new();
    for f in SIMPLE_FIELDS {
        if r.chance(65) {
            let v = match *f {
                "arr" if r.chance(70) => {
                    let n = r.below(4);
                    Yaml::Sequence((0..n).map(|_| gen_doc_scalar(r)).collect())
                }
                "o" if r.chance(70) => {
                    let mut o = Mapping::new();
                    for g in ["k", "p", "q", "a"] {
                        if r.chance(60) {
                            o.insert(ys(g), if g == "p" && r.chance(60) {
                                let mut pm = Mapping::new();
                                if r.chance(70) { pm.insert(ys("q"), gen_doc_scalar(r)); }
                                Yaml::Mapping(pm)
                            } else { gen_doc_value(r, 1) });
                        }
                    }
                    Yaml::Mapping(o)
                }
                "oa" if r.chance(70) => {
                    let n = r.below(4);
                    Yaml::Sequence((0..n).map(|_| {
                        if r.chance(15) {
                            return gen_doc_scalar(r);
                        }
                        let mut o = Mapping::new();
                        for g in ["k", "p", "q", "a"] {
                            if r.chance(60) { o.insert(ys(g), gen_doc_scalar(r)); }
                        }
                        Yaml::Mapping(o)
                    }).collect())
                }
                _ => gen_doc_value(r, 0),
            };
            m.insert(ys(f), v);
        }
    }
    if r.chance(30) {
        m.insert(ys("noise"), gen_doc_scalar(r));
    }
    Yaml::Mapping(m)
}

/// Collect every string a document exposes (string leaves and the decimal text of scalars).
pub fn doc_strings(y: &Yaml, out: &mut Vec<String>) {
    match y {
        Yaml::String(s) => out.push(s.clone()),
        Yaml::Bool(b) => out.push(b.to_string()),
        Yaml::Number(n) => {
            if n.is_u64() {
                out.push(n.as_u64().unwrap().to_string())
            } else if n.is_i64() {
                out.push(n.as_i64().unwrap().to_string())
            } else {
                out.push(n.as_f64().unwrap().to_string())
            }
        }
        Yaml::Sequence(xs) => xs.iter().for_each(|x| doc_strings(x, out)),
        Yaml::Mapping(m) => m.iter().for_each(|(_, v)| doc_strings(v, out)),
        Yaml::Tagged(t) => doc_strings(&t.value, out),
        Yaml::Null => {}
    }
}

pub fn yaml_strings(y: &Yaml, out: &mut Vec<String>) {
    match y {
        Yaml::String(s) => out.push(s.clone()),
        Yaml::Sequence(xs) => xs.iter().for_each(|x| yaml_strings(x, out)),
        Yaml::Mapping(m) => m.iter().for_each(|(k, v)| {
            yaml_strings(k, out);
            yaml_strings(v, out)
        }),
        _ => {}
    }
}


// ---------------------------------------------------------------------------------------------
// Shapes that need something specific to manifest (matrix-triggering or-chains, same-field nested
// conjuncts, long needle lists, undefined identifiers behind casts, multi-level nesting).

fn m1(k: &str, v: Yaml) -> Yaml {
    let mut m = Mapping::new();
    m.insert(ys(k), v);
    Yaml::Mapping(m)
}

pub fn words64(r: &mut Rng, n: usize) -> Vec<String> {
    (0..n)
        .map(|i| {
            let w = format!("w{}x", i);
            match r.below(4) {
                0 => format!("*{}*", w),
                1 => format!("{}*", w),
                2 => format!("*{}", w),
                _ => format!("*{}*", w),
            }
        })
        .collect()
}

/// Returns (detection entries incl. condition, extra documents tailored to the shape).
pub fn gen_special(r: &mut Rng) -> (Vec<(String, Yaml)>, Vec<Yaml>) {
    let k = if r.chance(4) { 13 } else { r.below(13) };
    gen_special_kind(r, k)
}

pub fn gen_special_kind(r: &mut Rng, kind: usize) -> (Vec<(String, Yaml)>, Vec<Yaml>) {
    let pat = |r: &mut Rng| ys(*r.pick(&["a", "a*", "*b", "*ab*", "x", "ib", "?a", "3"]));
    match kind {
        0 => {
            // or-chain of comparisons / identifiers sharing fields: triggers matrix after shake
            let fields = ["a", "n"];
            let k = 3 + r.below(2);
            let mut parts = vec![];
            for _ in 0..k {
                let f = *r.pick(&fields);
                let g = *r.pick(&fields);
                parts.push(match r.below(5) {
                    0 => format!("int({}) == int({})", f, g),
                    1 => format!("flt({}) >= 0.5", f),
                    2 => "A".to_string(),
                    3 => format!("{} < int({})", r.below(4), f),
                    _ => format!("int({}) {} {}", f, r.pick(&["==", ">", "<="]), r.below(4)),
                });
            }
            let cond = if r.chance(25) { format!("not ({})", parts.join(" or ")) } else { parts.join(" or ") };
            let det = vec![("A".to_string(), m1(*r.pick(&fields), pat(r))), ("condition".to_string(), ys(&cond))];
            (det, vec![])
        }
        1 => {
            // two or three nested conjuncts on the same field
            let f = *r.pick(&["oa", "o"]);
            let a = m1(f, m1("k", pat(r)));
            let b = m1(f, m1(*r.pick(&["p", "q", "k"]), pat(r)));
            let c = m1("s", pat(r));
            let cond = *r.pick(&["A and B and C", "not (A and B and C)", "B and A and C", "A and B and C and A", "C and (A and B and C)", "A and B"]);
            let det = vec![("A".to_string(), a), ("B".to_string(), b), ("C".to_string(), c), ("condition".to_string(), ys(cond))];
            let mut docs = vec![];
            for _ in 0..3 {
                let n = 1 + r.below(3);
                let elems: Vec<Yaml> = (0..n)
                    .map(|_| {
                        let mut o = Mapping::new();
                        for g in ["k", "p", "q"] {
                            if r.chance(55) {
                                o.insert(ys(g), ys(*r.pick(&["a", "ab", "b", "x", "3", "xb"])));
                            }
                        }
                        Yaml::Mapping(o)
                    })
                    .collect();
                let mut d = Mapping::new();
                d.insert(ys(f), if r.chance(75) { Yaml::Sequence(elems) } else { elems[0].clone() });
                if r.chance(80) {
                    d.insert(ys("s"), ys(*r.pick(&["a", "ab", "b", "x", "3"])));
                }
                docs.push(Yaml::Mapping(d));
            }
            (det, docs)
        }
        2 => {
            // a long needle list (>= 64 members) under all()/of()/plain
            let n = 64 + r.below(8);
            let ws = words64(r, n);
            let key = match r.below(4) {
                0 => "all(s)".to_string(),
                1 => format!("of(s, {})", 1 + r.below(3)),
                2 => "of(s, 0)".to_string(),
                _ => "s".to_string(),
            };
            let det = vec![("A".to_string(), m1(&key, Yaml::Sequence(ws.iter().map(|w| ys(w)).collect()))), ("condition".to_string(), ys(*r.pick(&["A", "not A"])))];
            let mut docs = vec![];
            for _ in 0..4 {
                let k = r.below(4);
                let mut text = String::new();
                for _ in 0..k {
                    text.push_str(&format!("w{}x ", r.below(n)));
                }
                if r.chance(10) {
                    text = (0..n).map(|i| format!("w{}x", i)).collect::<Vec<_>>().join(" ");
                }
                docs.push(m1("s", ys(text.trim())));
            }
            (det, docs)
        }
        3 => {
            // an undefined identifier, possibly behind a cast
            let cond = *r.pick(&["int(n) == 1 and Z", "int(n) > 0 or not Z", "A and all(Z)", "flt(n) >= 0.5 and of(Z, 1)", "Z", "int(n) == 1 and A and Z", "str(a) == str(b) or Z"]);
            let det = vec![("A".to_string(), m1("a", pat(r))), ("condition".to_string(), ys(cond))];
            (det, vec![])
        }
        4 => {
            // a sequence of mappings sharing cast fields: matrix rows with casts
            let rows: Vec<Yaml> = (0..2 + r.below(2))
                .map(|_| {
                    let mut m = Mapping::new();
                    let key = *r.pick(&["int(n)", "flt(n)", "n", "str(n)"]);
                    let v = match key {
                        "flt(n)" => Yaml::Number((*r.pick(&[2.5f64, 1.0, 3.0])).into()),
                        "str(n)" => ys(*r.pick(&["3", "1", "2.5"])),
                        _ => Yaml::Number((*r.pick(&[1i64, 3, 0])).into()),
                    };
                    m.insert(ys(key), v);
                    m.insert(ys(*r.pick(&["s", "a"])), ys(*r.pick(&["a*", "*b", "x", "ab"])));
                    Yaml::Mapping(m)
                })
                .collect();
            let cond = *r.pick(&["X", "not X", "all(X)", "of(X, 2)", "of(X, 0)"]);
            let det = vec![("X".to_string(), Yaml::Sequence(rows)), ("condition".to_string(), ys(cond))];
            let mut docs = vec![];
            for _ in 0..3 {
                let mut d = Mapping::new();
                d.insert(ys("n"), match r.below(6) {
                    0 => ys(*r.pick(&["3", "1", "2.5", "x"])),
                    1 => Yaml::Number((*r.pick(&[3.0f64, 1.0, 2.5, 0.4])).into()),
                    2 => Yaml::Bool(r.chance(50)),
                    _ => Yaml::Number((*r.pick(&[1u64, 3, 0, 2])).into()),
                });
                for f in ["s", "a"] {
                    if r.chance(80) {
                        d.insert(ys(f), ys(*r.pick(&["a", "ab", "b", "x", "xb"])));
                    }
                }
                docs.push(Yaml::Mapping(d));
            }
            (det, docs)
        }
        7 => {
            // lists whose needles overlap in the value (one automaton, several anchored members)
            let n = 2 + r.below(3);
            let ms: Vec<Yaml> = (0..n).map(|_| ys(*r.pick(&["a", "ab", "*ab", "b*", "*ba", "aa", "*aa", "iA", "i*aA", "*bcd", "abc", "*b", "ab*", "i*AB"]))).collect();
            let key = *r.pick(&["s", "s", "all(s)", "of(s, 2)", "not(s)"]);
            let det = vec![("A".to_string(), m1(key, Yaml::Sequence(ms))), ("condition".to_string(), ys(*r.pick(&["A", "not A"])))];
            let docs = ["aab", "aba", "abab", "aaa", "bab", "ab", "abcd", "AB", "aA"].iter().map(|t| m1("s", ys(t))).collect();
            (det, docs)
        }
        6 => {
            // an or-group of bare searches on one field, with and without the str() cast
            let n = 2 + r.below(3);
            let rows: Vec<Yaml> = (0..n)
                .map(|_| match r.below(4) {
                    0 => m1("str(n)", Yaml::Number((*r.pick(&[1i64, 3])).into())),
                    1 => m1("str(n)", ys(*r.pick(&["3", "1*", "*5"]))),
                    2 => m1("n", ys(*r.pick(&["foo", "3", "a*", "i3"]))),
                    _ => m1("s", ys(*r.pick(&["a*", "x"]))),
                })
                .collect();
            let cond = *r.pick(&["X", "not X", "X or A", "A or X"]);
            let det = vec![("X".to_string(), Yaml::Sequence(rows)), ("A".to_string(), m1("a", pat(r))), ("condition".to_string(), ys(cond))];
            let mut docs = vec![];
            for _ in 0..4 {
                let mut d = Mapping::new();
                d.insert(ys("n"), match r.below(5) {
                    0 => ys(*r.pick(&["3", "1", "foo", "15"])),
                    1 => Yaml::Number(2.5f64.into()),
                    2 => Yaml::Bool(true),
                    _ => Yaml::Number((*r.pick(&[1u64, 3, 15, 2])).into()),
                });
                if r.chance(60) {
                    d.insert(ys("s"), ys(*r.pick(&["a", "x", "b"])));
                }
                docs.push(Yaml::Mapping(d));
            }
            (det, docs)
        }
        13 => {
            // an or-group over more than 128 distinct fields (one of them used twice): a matrix
            // whose synthetic column keys are multi-byte characters
            let n = 130 + r.below(90);
            let mut rows: Vec<Yaml> = (0..n).map(|i| m1(&format!("w{}", i), ys(&format!("v{}", i)))).collect();
            let dup = r.below(n);
            rows.push(m1(&format!("w{}", dup), Yaml::Number(7u64.into())));
            let cond = *r.pick(&["X", "not X", "of(X, 1)"]);
            let det = vec![("X".to_string(), Yaml::Sequence(rows)), ("condition".to_string(), ys(cond))];
            let mut docs = vec![];
            for _ in 0..4 {
                let j = if r.chance(70) { 128 + r.below(n - 128) } else { r.below(n) };
                let mut d = Mapping::new();
                d.insert(ys(&format!("w{}", j)), if r.chance(75) { ys(&format!("v{}", j)) } else { ys("other") });
                if r.chance(30) {
                    d.insert(ys(&format!("w{}", dup)), Yaml::Number(7u64.into()));
                }
                docs.push(Yaml::Mapping(d));
            }
            (det, docs)
        }
        8 => {
            // a sequence identifier with ONE entry (a multi-key mapping or a key holding a list)
            // under all()/of(): the quantifier counts the entry, not what is inside it
            let entry = if r.chance(50) {
                let mut m = Mapping::new();
                m.insert(ys("s"), pat(r));
                m.insert(ys(*r.pick(&["a", "n"])), pat(r));
                if r.chance(30) {
                    m.insert(ys("b"), pat(r));
                }
                Yaml::Mapping(m)
            } else {
                let n = 2 + r.below(2);
                m1(*r.pick(&["s", "a"]), Yaml::Sequence((0..n).map(|_| pat(r)).collect()))
            };
            let cond = *r.pick(&["all(X)", "of(X, 1)", "of(X, 0)", "of(X, 2)", "X", "not all(X)", "not of(X, 1)"]);
            let det = vec![("X".to_string(), Yaml::Sequence(vec![entry])), ("condition".to_string(), ys(cond))];
            let mut docs = vec![];
            for _ in 0..4 {
                let mut d = Mapping::new();
                for f in ["s", "a", "n", "b"] {
                    if r.chance(75) {
                        d.insert(ys(f), ys(*r.pick(&["a", "ab", "b", "x", "xab", "3"])));
                    }
                }
                docs.push(Yaml::Mapping(d));
            }
            (det, docs)
        }
        9 => {
            // a nested mapping against arrays that mix objects with other kinds, in every order
            let f = *r.pick(&["oa", "o"]);
            let inner = if r.chance(60) { m1("k", pat(r)) } else {
                let mut m = Mapping::new();
                m.insert(ys("k"), pat(r));
                m.insert(ys("p"), pat(r));
                Yaml::Mapping(m)
            };
            let cond = *r.pick(&["A", "not A", "A or B", "A and B"]);
            let det = vec![("A".to_string(), m1(f, inner)), ("B".to_string(), m1("s", pat(r))), ("condition".to_string(), ys(cond))];
            let mut docs = vec![];
            for _ in 0..4 {
                let n = 1 + r.below(4);
                let elems: Vec<Yaml> = (0..n)
                    .map(|_| match r.below(6) {
                        0 => Yaml::Null,
                        1 => Yaml::Number((3u64).into()),
                        2 => ys("a"),
                        3 => Yaml::Sequence(vec![m1("k", ys("a"))]),
                        _ => {
                            let mut o = Mapping::new();
                            for g in ["k", "p"] {
                                if r.chance(80) {
                                    o.insert(ys(g), ys(*r.pick(&["a", "ab", "b", "x", "xab", "3"])));
                                }
                            }
                            Yaml::Mapping(o)
                        }
                    })
                    .collect();
                let mut d = Mapping::new();
                d.insert(ys(f), Yaml::Sequence(elems));
                if r.chance(50) {
                    d.insert(ys("s"), ys(*r.pick(&["a", "b", "x"])));
                }
                docs.push(Yaml::Mapping(d));
            }
            (det, docs)
        }
        10 => {
            // str() casts against arrays and scalars of every kind
            let v = match r.below(4) {
                0 => Yaml::Number((*r.pick(&[443i64, 3, 1])).into()),
                1 => ys(*r.pick(&["443", "3", "44*", "*43", "true", "2.5"])),
                2 => Yaml::Sequence(vec![ys(*r.pick(&["443", "3"])), ys(*r.pick(&["80", "1*"]))]),
                _ => Yaml::Bool(true),
            };
            let cond = *r.pick(&["A", "not A", "A or B"]);
            let det = vec![("A".to_string(), m1("str(n)", v)), ("B".to_string(), m1("str(m)", ys(*r.pick(&["3", "443443", "3443"])))), ("condition".to_string(), ys(cond))];
            let mut docs = vec![];
            for _ in 0..5 {
                let mut d = Mapping::new();
                for f in ["n", "m"] {
                    if r.chance(85) {
                        d.insert(ys(f), match r.below(6) {
                            0 => Yaml::Sequence(vec![Yaml::Number(80u64.into()), Yaml::Number(443u64.into()), Yaml::Number(8080u64.into())]),
                            1 => Yaml::Sequence(vec![ys("x"), Yaml::Number(3u64.into()), Yaml::Bool(true)]),
                            2 => Yaml::Number((*r.pick(&[443u64, 3, 1, 80])).into()),
                            3 => Yaml::Bool(true),
                            4 => Yaml::Number(2.5f64.into()),
                            _ => ys(*r.pick(&["443", "3", "x"])),
                        });
                    }
                }
                docs.push(Yaml::Mapping(d));
            }
            (det, docs)
        }
        11 => {
            // bare numbers beyond i64 in the rule, their two's-complement aliases in the document
            let big = *r.pick(&[u64::MAX, 9223372036854775808u64, 18446744073709551614u64, 9223372036854775807u64]);
            let key = *r.pick(&["n", "n", "int(n)", "str(n)", "flt(n)"]);
            let v = if r.chance(70) { Yaml::Number(big.into()) } else { Yaml::Sequence(vec![Yaml::Number(big.into()), Yaml::Number(5u64.into())]) };
            let det = vec![("A".to_string(), m1(key, v)), ("condition".to_string(), ys(*r.pick(&["A", "not A"])))];
            let mut docs = vec![];
            for x in [Yaml::Number((-1i64).into()), Yaml::Number(i64::MIN.into()), Yaml::Number(big.into()), Yaml::Number((-2i64).into()), ys("-1"), ys(&big.to_string()), Yaml::Number((big as f64).into()), Yaml::Number(5u64.into())] {
                docs.push(m1("n", x));
            }
            (det, docs)
        }
        _ => {
            // multi-level nesting with arrays at intermediate levels
            let leaf = pat(r);
            let det = vec![
                ("A".to_string(), m1("o", m1("p", m1("q", leaf.clone())))),
                ("B".to_string(), m1("o.p.q", leaf.clone())),
                ("condition".to_string(), ys(*r.pick(&["A", "B", "A or B", "A and not B", "not A"]))),
            ];
            let v = || -> Vec<&str> { vec!["a", "ab", "b", "x", "xb", "3"] };
            let mut docs = vec![];
            for _ in 0..4 {
                let q1 = ys(*r.pick(&v()));
                let q2 = ys(*r.pick(&v()));
                let d = match r.below(5) {
                    0 => m1("o", m1("p", Yaml::Sequence(vec![m1("q", q1), m1("q", q2)]))),
                    1 => m1("o", Yaml::Sequence(vec![m1("p", m1("q", q1)), m1("p", m1("q", q2))])),
                    2 => m1("o", m1("p", m1("q", q1))),
                    3 => {
                        let mut d = Mapping::new();
                        d.insert(ys("o"), ys("scalar"));
                        d.insert(ys("p"), m1("q", q1));
                        d.insert(ys("q"), q2);
                        Yaml::Mapping(d)
                    }
                    _ => m1("o", m1("p", Yaml::Sequence(vec![q1, m1("q", q2)]))),
                };
                docs.push(d);
            }
            (det, docs)
        }
    }
}
