//! S-expressions of the line protocol: parser, and printers for YAML values, documents, tokens
//! and the engine's `Expression` (canonical form shared with the Lean driver).

use serde_yaml::Value as Yaml;
use tau_engine::core::parser::{
    BoolSym, Expression, Match, MatchSym, MatchType, MiscSym, ModSym, Search, Token,
};
use tau_engine::core::parser::DelSym;

#[derive(Clone, Debug, PartialEq)]
pub enum Sx {
    Atom(String),
    List(Vec<Sx>),
}

pub fn parse(line: &str) -> Option<Vec<Sx>> {
    let spaced = line.replace('(', " ( ").replace(')', " ) ");
    let toks: Vec<&str> = spaced.split(' ').filter(|t| !t.is_empty()).collect();
    let mut pos = 0;
    let out = parse_list(&toks, &mut pos)?;
    if pos != toks.len() {
        return None;
    }
    Some(out)
}

fn parse_list(toks: &[&str], pos: &mut usize) -> Option<Vec<Sx>> {
    let mut out = vec![];
    while *pos < toks.len() {
        match toks[*pos] {
            ")" => return Some(out),
            "(" => {
                *pos += 1;
                let inner = parse_list(toks, pos)?;
                if *pos >= toks.len() || toks[*pos] != ")" {
                    return None;
                }
                *pos += 1;
                out.push(Sx::List(inner));
            }
            t => {
                out.push(Sx::Atom(t.to_string()));
                *pos += 1;
            }
        }
    }
    Some(out)
}

pub fn enc(s: &str) -> String {
    let mut out = String::with_capacity(2 + s.len() * 2);
    out.push_str("s:");
    for b in s.as_bytes() {
        out.push_str(&format!("{:02x}", b));
    }
    out
}

pub fn dec(atom: &str) -> Option<String> {
    let h = atom.strip_prefix("s:")?;
    if h.len() % 2 != 0 {
        return None;
    }
    let mut bytes = Vec::with_capacity(h.len() / 2);
    let hb = h.as_bytes();
    let mut i = 0;
    while i < hb.len() {
        let s = std::str::from_utf8(&hb[i..i + 2]).ok()?;
        bytes.push(u8::from_str_radix(s, 16).ok()?);
        i += 2;
    }
    String::from_utf8(bytes).ok()
}

// ---------------------------------------------------------------- YAML (rule side)

pub fn yaml_sx(y: &Yaml) -> String {
    match y {
        Yaml::Null => "null".into(),
        Yaml::Bool(b) => format!("{}", b),
        Yaml::Number(n) => {
            if let Some(i) = n.as_i64() {
                format!("(i {})", i)
            } else if n.is_u64() {
                let u = n.as_u64().unwrap();
                let f = u as f64;
                format!("(big {} {} {})", u, f.to_bits(), enc(&f.to_string()))
            } else {
                let f = n.as_f64().unwrap();
                format!("(f {} {})", f.to_bits(), enc(&f.to_string()))
            }
        }
        Yaml::String(s) => enc(s),
        Yaml::Sequence(xs) => {
            let mut s = String::from("(seq");
            for x in xs {
                s.push(' ');
                s.push_str(&yaml_sx(x));
            }
            s.push(')');
            s
        }
        Yaml::Mapping(m) => {
            let mut s = String::from("(map");
            for (k, v) in m {
                s.push_str(&format!(" (kv {} {})", yaml_sx(k), yaml_sx(v)));
            }
            s.push(')');
            s
        }
        Yaml::Tagged(t) => format!("(tagged {})", yaml_sx(&t.value)),
    }
}

pub fn sx_yaml(x: &Sx) -> Option<Yaml> {
    match x {
        Sx::Atom(a) => match a.as_str() {
            "null" => Some(Yaml::Null),
            "true" => Some(Yaml::Bool(true)),
            "false" => Some(Yaml::Bool(false)),
            "tagged" => Some(Yaml::Tagged(Box::new(serde_yaml::value::TaggedValue {
                tag: serde_yaml::value::Tag::new("t"),
                value: Yaml::Null,
            }))),
            _ => dec(a).map(Yaml::String),
        },
        Sx::List(xs) => {
            let head = match xs.first()? {
                Sx::Atom(a) => a.as_str(),
                _ => return None,
            };
            match head {
                "i" => {
                    let i: i64 = atom(xs.get(1)?)?.parse().ok()?;
                    Some(Yaml::Number(i.into()))
                }
                "big" => {
                    let u: u64 = atom(xs.get(1)?)?.parse().ok()?;
                    Some(Yaml::Number(u.into()))
                }
                "f" => {
                    let b: u64 = atom(xs.get(1)?)?.parse().ok()?;
                    Some(Yaml::Number(f64::from_bits(b).into()))
                }
                "tagged" => Some(Yaml::Tagged(Box::new(serde_yaml::value::TaggedValue {
                    tag: serde_yaml::value::Tag::new("t"),
                    value: sx_yaml(xs.get(1)?)?,
                }))),
                "seq" => {
                    let mut out = vec![];
                    for x in &xs[1..] {
                        out.push(sx_yaml(x)?);
                    }
                    Some(Yaml::Sequence(out))
                }
                "map" => {
                    let mut m = serde_yaml::Mapping::new();
                    for kv in &xs[1..] {
                        if let Sx::List(p) = kv {
                            if p.len() == 3 && p[0] == Sx::Atom("kv".into()) {
                                m.insert(sx_yaml(&p[1])?, sx_yaml(&p[2])?);
                                continue;
                            }
                        }
                        return None;
                    }
                    Some(Yaml::Mapping(m))
                }
                _ => None,
            }
        }
    }
}

pub fn atom(x: &Sx) -> Option<&str> {
    match x {
        Sx::Atom(a) => Some(a.as_str()),
        _ => None,
    }
}

// ---------------------------------------------------------------- documents (value side)

/// A document value as the engine sees a YAML value through `AsValue` (yaml.rs).
pub fn doc_sx(y: &Yaml) -> String {
    match y {
        Yaml::Null => "null".into(),
        Yaml::Bool(b) => format!("{}", b),
        Yaml::Number(n) => {
            if n.is_u64() {
                format!("(u {})", n.as_u64().unwrap())
            } else if n.is_i64() {
                format!("(i {})", n.as_i64().unwrap())
            } else {
                let f = n.as_f64().unwrap();
                format!("(f {} {})", f.to_bits(), enc(&f.to_string()))
            }
        }
        Yaml::String(s) => enc(s),
        Yaml::Sequence(xs) => {
            let mut s = String::from("(arr");
            for x in xs {
                s.push(' ');
                s.push_str(&doc_sx(x));
            }
            s.push(')');
            s
        }
        Yaml::Mapping(m) => {
            let mut s = String::from("(obj");
            for (k, v) in m {
                if let Yaml::String(k) = k {
                    s.push_str(&format!(" (kv {} {})", enc(k), doc_sx(v)));
                }
            }
            s.push(')');
            s
        }
        Yaml::Tagged(t) => doc_sx(&t.value),
    }
}

pub fn sx_doc(x: &Sx) -> Option<Yaml> {
    match x {
        Sx::Atom(a) => match a.as_str() {
            "null" => Some(Yaml::Null),
            "true" => Some(Yaml::Bool(true)),
            "false" => Some(Yaml::Bool(false)),
            _ => dec(a).map(Yaml::String),
        },
        Sx::List(xs) => {
            let head = atom(xs.first()?)?;
            match head {
                "i" => {
                    let i: i64 = atom(xs.get(1)?)?.parse().ok()?;
                    Some(Yaml::Number(i.into()))
                }
                "u" => {
                    let u: u64 = atom(xs.get(1)?)?.parse().ok()?;
                    Some(Yaml::Number(u.into()))
                }
                "f" => {
                    let b: u64 = atom(xs.get(1)?)?.parse().ok()?;
                    Some(Yaml::Number(f64::from_bits(b).into()))
                }
                "arr" => {
                    let mut out = vec![];
                    for x in &xs[1..] {
                        out.push(sx_doc(x)?);
                    }
                    Some(Yaml::Sequence(out))
                }
                "obj" => {
                    let mut m = serde_yaml::Mapping::new();
                    for kv in &xs[1..] {
                        if let Sx::List(p) = kv {
                            if p.len() == 3 && p[0] == Sx::Atom("kv".into()) {
                                m.insert(Yaml::String(dec(atom(&p[1])?)?), sx_doc(&p[2])?);
                                continue;
                            }
                        }
                        return None;
                    }
                    Some(Yaml::Mapping(m))
                }
                _ => None,
            }
        }
    }
}

// ---------------------------------------------------------------- engine trees (canonical)

pub fn op_name(o: &BoolSym) -> &'static str {
    match o {
        BoolSym::And => "and",
        BoolSym::Equal => "eq",
        BoolSym::GreaterThan => "gt",
        BoolSym::GreaterThanOrEqual => "ge",
        BoolSym::LessThan => "lt",
        BoolSym::LessThanOrEqual => "le",
        BoolSym::Or => "or",
    }
}

pub fn mod_name(m: &ModSym) -> &'static str {
    match m {
        ModSym::Flt => "flt",
        ModSym::Int => "int",
        ModSym::Not => "not",
        ModSym::Str => "str",
    }
}

fn mt_sx(m: &MatchType) -> String {
    match m {
        MatchType::Contains(s) => format!("(c {})", enc(s)),
        MatchType::EndsWith(s) => format!("(e {})", enc(s)),
        MatchType::Exact(s) => format!("(x {})", enc(s)),
        MatchType::StartsWith(s) => format!("(s {})", enc(s)),
    }
}

fn join(xs: Vec<String>) -> String {
    xs.join(" ")
}

pub fn search_sx(s: &Search) -> String {
    match s {
        Search::AhoCorasick(_, ctx, ci) => {
            format!("(ac {} {})", ci, join(ctx.iter().map(mt_sx).collect()))
        }
        Search::Any => "any".into(),
        Search::Contains(s) => format!("(contains {})", enc(s)),
        Search::EndsWith(s) => format!("(ends {})", enc(s)),
        Search::Exact(s) => format!("(exact {})", enc(s)),
        Search::Regex(r, ci) => format!("(regex {} {})", ci, enc(r.as_str())),
        Search::RegexSet(r, ci) => format!(
            "(rset {} {})",
            ci,
            join(r.patterns().iter().map(|p| enc(p)).collect())
        ),
        Search::StartsWith(s) => format!("(starts {})", enc(s)),
    }
}

pub fn expr_sx(e: &Expression) -> String {
    match e {
        Expression::BooleanGroup(o, es) => {
            format!("(g {} {})", op_name(o), join(es.iter().map(expr_sx).collect()))
        }
        Expression::BooleanExpression(l, o, r) => {
            format!("(b {} {} {})", op_name(o), expr_sx(l), expr_sx(r))
        }
        Expression::Boolean(b) => format!("(bool {})", b),
        Expression::Cast(f, m) => format!("(cast {} {})", enc(f), mod_name(m)),
        Expression::Field(f) => format!("(field {})", enc(f)),
        Expression::Float(x) => format!("(float {})", x.to_bits()),
        Expression::Identifier(n) => format!("(id {})", enc(n)),
        Expression::Integer(i) => format!("(int {})", i),
        Expression::Match(Match::All, e) => format!("(all {})", expr_sx(e)),
        Expression::Match(Match::Of(n), e) => format!("(of {} {})", n, expr_sx(e)),
        Expression::Matrix(cols, rows) => {
            let rows: Vec<String> = rows
                .iter()
                .map(|r| {
                    format!(
                        "(row {})",
                        join(
                            r.iter()
                                .map(|c| match c {
                                    Some(e) => expr_sx(e),
                                    None => "_".into(),
                                })
                                .collect()
                        )
                    )
                })
                .collect();
            format!(
                "(matrix (cols {}) {})",
                join(cols.iter().map(|c| enc(c)).collect()),
                join(rows)
            )
        }
        Expression::Negate(e) => format!("(not {})", expr_sx(e)),
        Expression::Nested(f, e) => format!("(nested {} {})", enc(f), expr_sx(e)),
        Expression::Null => "null".into(),
        Expression::Search(s, f, c) => format!("(search {} {} {})", search_sx(s), enc(f), c),
    }
}

pub fn tok_sx(t: &Token) -> String {
    match t {
        Token::Delimiter(DelSym::Comma) => "comma".into(),
        Token::Delimiter(DelSym::LeftParenthesis) => "lparen".into(),
        Token::Delimiter(DelSym::RightParenthesis) => "rparen".into(),
        Token::Float(x) => format!("(float {})", x.to_bits()),
        Token::Identifier(s) => format!("(id {})", enc(s)),
        Token::Integer(i) => format!("(int {})", i),
        Token::Operator(o) => format!("(op {})", op_name(o)),
        Token::Modifier(m) => format!("(mod {})", mod_name(m)),
        Token::Miscellaneous(MiscSym::Not) => "not".into(),
        Token::Match(MatchSym::All) => "all".into(),
        Token::Match(MatchSym::Of) => "of".into(),
    }
}
